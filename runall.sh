#!/bin/bash
# runs every quick (or thorough) check in turn; usage: ./runall.sh [quick|thorough] [ids...]
tier=${1:-quick}; shift
ids=${@:-C01 C02 C03 C04 C05 C06 C07 C08 C09 C10 C11 C12 C13 C14 C15 C16 C17 C18 C19 C20}
rc=0
for id in $ids; do
  s=$(date +%s)
  ./check $id --tier $tier > /var/tmp/vp-$id-$tier.log 2>&1; r=$?
  e=$(date +%s)
  echo "$id exit=$r $((e-s))s $(grep '^summary' /var/tmp/vp-$id-$tier.log | cut -c1-160)"
  [ $r -ne 0 ] && rc=1
done
exit $rc
