#!/usr/bin/env python3
"""seed_eval.py [--repo] <ID-k> ... : confirm seeded changes and run the checks against them.

For every seeded change /verif/seeded/<ID>-<k>/ (patch.diff, demo.py, meta.json): apply it to a scratch worktree of /repo (default) or to /repo itself
(--repo: git -C /repo apply, undone straight afterwards), run the repository suite (must stay green), the demonstration (must fail with the change,
pass without), and the quick checks listed in meta['checks'] (default: the property it breaks); record everything in meta.json."""
import json
import os
import subprocess
import sys
import time

ROOT = os.path.dirname(os.path.abspath(__file__))


def sh(cmd, cwd=None, env=None, timeout=3600):
    p = subprocess.run(cmd, shell=True, cwd=cwd, env=env, capture_output=True, text=True, timeout=timeout)
    return p.returncode, (p.stdout + p.stderr)


def main():
    args = sys.argv[1:]
    use_repo = '--repo' in args
    # ID-k=C09,C02 re-runs only those checks for that change; earlier outcomes of its other listed checks are kept
    only = {a.split('=')[0]: a.split('=')[1].split(',') for a in args if '=' in a}
    args = [a.split('=')[0] for a in args if a != '--repo']
    ids = args or sorted(os.listdir(os.path.join(ROOT, 'seeded')))
    for sid in ids:
        d = os.path.join(ROOT, 'seeded', sid)
        meta_p = os.path.join(d, 'meta.json')
        if not os.path.exists(meta_p):
            continue
        meta = json.load(open(meta_p))
        if use_repo:
            tree = '/repo'
            rc, out = sh('git status --porcelain -- rxsci', cwd=tree)
            if out.strip():
                print('/repo not clean, refusing')
                return 2
        else:
            tree = '/tmp/wt/eval-%s' % sid
            sh('git -C /repo worktree remove --force %s' % tree)
            rc, out = sh('git -C /repo worktree add -q %s HEAD' % tree)
            if rc:
                print(out)
                return 2
        env = dict(os.environ, PYTHONPATH=tree)
        try:
            rc, out = sh('git apply %s/patch.diff' % d, cwd=tree)
            if rc:
                meta['result'] = dict(error='patch does not apply: ' + out[-300:])
                print(sid, 'PATCH DOES NOT APPLY')
                continue
            rc, out = sh('/venv/bin/python -m pytest -q -p no:cacheprovider tests 2>&1 | tail -1', cwd=tree, env=env)
            suite = out.strip().splitlines()[-1] if out.strip() else ''
            d1, dout = sh('/venv/bin/python %s/demo.py' % d, cwd=tree, env=env)
            res = {}
            if sid in only and isinstance(meta.get('result'), dict):
                res = {c: r for c, r in (meta['result'].get('checks') or {}).items() if c not in only[sid]}
            cenv = dict(os.environ)
            if not use_repo:
                cenv['VP_REPO'] = tree
            for c in only.get(sid) or meta.get('checks') or [meta['property']]:
                t = time.time()
                rc, out = sh('./check %s --no-evidence' % c, cwd=ROOT, env=cenv)
                viol = [l for l in out.splitlines() if l.startswith('VIOLATION')]
                first = [l for l in out.splitlines() if l.startswith('  refuted:')][:1]
                summ = [l for l in out.splitlines() if l.startswith('summary')]
                res[c] = dict(exit=rc, violations=len(viol), wall_s=round(time.time() - t), summary=summ[-1][:200] if summ else '', example=first[0][:400] if first else '')
            sh('git checkout -q -- rxsci', cwd=tree)
            d2, _ = sh('/venv/bin/python %s/demo.py' % d, cwd=tree, env=env)
            meta['result'] = dict(tree='git -C /repo apply' if use_repo else 'scratch worktree (VP_REPO)', suite_with_change=suite, demo_exit_with_change=d1, demo_exit_without_change=d2,
                                  demo_output_with_change=dout[-400:], checks=res, confirmed=(('257 passed' in suite) and d1 != 0 and d2 == 0),
                                  detected_by=[c for c, r in res.items() if r['exit'] == 1])
            print(sid, 'suite:', suite[:40], '| demo', d1, d2, '|', {c: (r['exit'], r['violations']) for c, r in res.items()}, flush=True)
        finally:
            if use_repo:
                sh('git checkout -q -- rxsci', cwd='/repo')
            else:
                sh('git -C /repo worktree remove --force %s' % tree)
            sh('rm -f %s/replays/*.json' % ROOT)
            json.dump(meta, open(meta_p, 'w'), indent=1)
    return 0


if __name__ == '__main__':
    sys.exit(main())
