#!/usr/bin/env python3
"""import round-2 mutants from /tmp/wt/<Cxx>b/_mutant into /verif/seeded/<Cxx>-<k+2>/ (skips ones already imported or incomplete)"""
import json, os, re, shutil, sys
props = {json.loads(l)['id']: json.loads(l) for l in open('/verif/properties.jsonl')}
new = []
for pid in sorted(props):
    src = '/tmp/wt/%sb/_mutant' % pid
    if not os.path.isdir(src):
        continue
    notes = open(src + '/notes.md').read() if os.path.exists(src + '/notes.md') else ''
    for k in (1, 2, 3):
        if not (os.path.exists('%s/patch%d.diff' % (src, k)) and os.path.exists('%s/demo%d.py' % (src, k))):
            continue
        sid = '%s-%d' % (pid, k + 2)
        d = '/verif/seeded/' + sid
        if os.path.exists(d + '/meta.json'):
            continue
        if not notes:
            continue      # agent still working
        os.makedirs(d, exist_ok=True)
        shutil.copy('%s/patch%d.diff' % (src, k), d + '/patch.diff')
        shutil.copy('%s/demo%d.py' % (src, k), d + '/demo.py')
        files = sorted(set(re.findall(r'^\+\+\+ b/(\S+)', open(d + '/patch.diff').read(), re.M)))
        json.dump(dict(id=sid, property=pid, round=2, source='independent sub-agent given only the property text and a scratch worktree (second round: asked for subtler, indirect / context-dependent / value-specific changes)',
                       files_changed=files, notes_file='notes.md', checks=[pid]), open(d + '/meta.json', 'w'), indent=1)
        open(d + '/notes.md', 'w').write(notes)
        new.append(sid)
print(' '.join(new))
