#!/bin/bash
# benign_eval.sh <patch.diff> <check ids...>: run quick checks against a behaviour-preserving change (scratch worktree, removed afterwards).
# Any REFUTED / VIOLATION here is a false alarm of the machinery.
patch=$1; shift
name=$(basename $patch .diff)
wt=/tmp/wt/ben-$name
git -C /repo worktree remove --force $wt 2>/dev/null
git -C /repo worktree add -q $wt HEAD || exit 2
(cd $wt && git apply $patch) || { echo "$name: patch does not apply"; git -C /repo worktree remove --force $wt; exit 2; }
suite=$(cd $wt && /venv/bin/python -m pytest -q -p no:cacheprovider 2>&1 | tail -1)
echo "$name suite: $suite"
for c in "$@"; do
  out=$(VP_REPO=$wt VERIF_EVIDENCE_DIR=/var/tmp/ev-benign /verif/check $c --no-evidence 2>&1)
  echo "$name $c exit=$? $(echo "$out" | grep '^summary')"
  echo "$out" | grep -E "^VIOLATION| REFUTED | ERROR " | grep -v "twin:" | head -5 | cut -c1-300
  echo "$out" | grep -E "INCONCLUSIVE" | head -3 | cut -c1-220
done
git -C /repo worktree remove --force $wt
