#!/usr/bin/env python3
"""import round-4 mutants from /tmp/wt/<Cxx>d/_mutant into /verif/seeded/<Cxx>-<next free k>/"""
import json, os, re, shutil
props = {json.loads(l)['id']: json.loads(l) for l in open('/verif/properties.jsonl')}
new = []
for pid in sorted(props):
    src = '/tmp/wt/%sd/_mutant' % pid
    if not os.path.exists(src + '/notes.md'):
        continue
    notes = open(src + '/notes.md').read()
    have = [int(d.split('-')[1]) for d in os.listdir('/verif/seeded') if d.startswith(pid + '-')]
    if any(json.load(open('/verif/seeded/%s-%d/meta.json' % (pid, k))).get('round') == 4 for k in have):
        continue
    nxt = max(have) + 1
    for k in (1, 2):
        if not (os.path.exists('%s/patch%d.diff' % (src, k)) and os.path.exists('%s/demo%d.py' % (src, k))):
            continue
        sid = '%s-%d' % (pid, nxt); nxt += 1
        d = '/verif/seeded/' + sid
        os.makedirs(d, exist_ok=True)
        shutil.copy('%s/patch%d.diff' % (src, k), d + '/patch.diff')
        shutil.copy('%s/demo%d.py' % (src, k), d + '/demo.py')
        files = sorted(set(re.findall(r'^\+\+\+ b/(\S+)', open(d + '/patch.diff').read(), re.M)))
        json.dump(dict(id=sid, property=pid, round=4, source='independent sub-agent given only the property text and a scratch worktree (fourth round, later session: changes that need a specific interleaving / history / unusual input / two cooperating sites)',
                       files_changed=files, notes_file='notes.md', checks=[pid]), open(d + '/meta.json', 'w'), indent=1)
        open(d + '/notes.md', 'w').write(notes)
        new.append(sid)
print(' '.join(new))
