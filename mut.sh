#!/bin/bash
# mut.sh <seeded-dir-or-patch> <k> <prop ids...>: applies patch<k>.diff to /repo, runs the repository suite, the demo and the given quick checks, then reverts.
dir=$1; k=$2; shift; shift
patch=$dir/patch$k.diff; demo=$dir/demo$k.py
cd /repo || exit 2
if [ -n "$(git status --porcelain -- rxsci)" ]; then echo "/repo not clean"; exit 2; fi
git apply "$patch" || { echo "patch does not apply"; exit 2; }
suite=$(/venv/bin/python -m pytest -q -p no:cacheprovider tests 2>&1 | tail -1)
PYTHONPATH=/repo /venv/bin/python "$demo" > /var/tmp/demo.out 2>&1; d1=$?
cd /verif
for id in "$@"; do
  ./check $id --no-evidence > /var/tmp/mut-$id.log 2>&1; r=$?
  echo "  check $id exit=$r violations=$(grep -c '^VIOLATION' /var/tmp/mut-$id.log) $(grep '^summary' /var/tmp/mut-$id.log | cut -c1-120)"
done
git -C /repo checkout -- rxsci
PYTHONPATH=/repo /venv/bin/python "$demo" > /var/tmp/demo2.out 2>&1; d2=$?
echo "  suite: $suite | demo with mutant exit=$d1 | demo without exit=$d2"
rm -f /verif/replays/*.json
