#!/bin/bash
# mutw.sh <WT-ID> <k> <prop ids...>: like mut.sh but applies /tmp/wt/<ID>/_mutant/patch<k>.diff inside that scratch worktree and points the checks at it (VP_REPO); /repo is not touched.
id=$1; k=$2; shift; shift
wt=/tmp/wt/$id; dir=$wt/_mutant
cd $wt || exit 2
git checkout -q -- rxsci; git apply "$dir/patch$k.diff" || { echo "patch does not apply"; exit 2; }
suite=$(PYTHONPATH=$wt /venv/bin/python -m pytest -q -p no:cacheprovider tests 2>&1 | tail -1)
PYTHONPATH=$wt /venv/bin/python "$dir/demo$k.py" > /var/tmp/demo-$id-$k.out 2>&1; d1=$?
cd /verif
for p in "$@"; do
  VP_REPO=$wt ./check $p --no-evidence > /var/tmp/mutw-$id-$k-$p.log 2>&1; r=$?
  echo "  [$id/$k] check $p exit=$r violations=$(grep -c '^VIOLATION' /var/tmp/mutw-$id-$k-$p.log) $(grep '^summary' /var/tmp/mutw-$id-$k-$p.log | cut -c1-130)"
done
git -C $wt checkout -q -- rxsci
PYTHONPATH=$wt /venv/bin/python "$dir/demo$k.py" > /var/tmp/demo2-$id-$k.out 2>&1; d2=$?
echo "  [$id/$k] suite: $suite | demo with mutant exit=$d1 | demo without exit=$d2"
