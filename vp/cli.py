"""./check <ID> [--tier quick|thorough] [--jobs N] [--only SUBSTR] | ./check --replay <file>

exit 0: property held on everything explored (known findings are printed)
exit 1: VIOLATION property=<id> replay=<path> (reproduced concretely, not a known finding)
exit 2: harness / engine error (never a VIOLATION)
"""
import argparse
import json
import os
import sys
import time

from vp import engine
from vp.engine import Ob


def main(argv=None):
    ap = argparse.ArgumentParser()
    ap.add_argument('prop', nargs='?')
    ap.add_argument('--tier', default=os.environ.get('VERIF_TIER') or 'quick', choices=['quick', 'thorough'])
    ap.add_argument('--jobs', type=int, default=0)
    ap.add_argument('--only', default=None, help='run only obligations whose name contains this')
    ap.add_argument('--replay', default=None)
    ap.add_argument('--list', action='store_true')
    ap.add_argument('--no-evidence', action='store_true')
    ap.add_argument('-v', action='store_true')
    a = ap.parse_args(argv)

    if a.replay:
        from vp import replay
        return replay.main([a.replay])
    if not a.prop:
        ap.error('property id required')
    prop = a.prop
    seed = int(os.environ.get('VERIF_SEED') or 0)
    t0 = time.time()
    mod = engine.load_prop(prop)
    obs = list(mod.obligations(a.tier, seed))
    if a.only:
        obs = [o for o in obs if a.only in o.name]
    if a.list:
        for o in obs:
            print(o.name, o.budget, o.bound)
        print(len(obs), 'obligations')
        return 0
    # engine self-tests ride along with every check
    eng = engine.load_prop('ENGINE')
    eobs = [] if (a.only or prop == 'ENGINE') else list(eng.obligations(a.tier, seed))
    nres = []

    def progress(r):
        nres.append(r)
        if a.v or r['verdict'] not in ('CONFIRMED',):
            sp = r['spec']
            tag = r['verdict'] if sp['expect'] == 'hold' else 'twin:' + r['verdict']
            print('  [%d/%d] %-12s %s %.1fs %s' % (len(nres), len(obs) + len(eobs), tag, r.get('name'),
                                                  r.get('wall_s', 0), (r.get('reason') or '')[:160]), flush=True)

    print('check %s tier=%s seed=%d: %d obligations (+%d engine self-tests)' % (prop, a.tier, seed, len(obs), len(eobs)), flush=True)
    results = engine.run_pool(obs + eobs, jobs=a.jobs or None, progress=progress)
    known = engine.load_known()

    eng_bad = []
    violations = []
    known_hits = []
    inconcl = []
    errors = []
    confirmed = 0
    twins_ok = twins_bad = 0
    for r in results:
        sp = r['spec']
        v = r['verdict']
        if sp['prop'] == 'ENGINE':
            good = (v == 'CONFIRMED') if sp['expect'] == 'hold' else (v == 'REFUTED')
            if not good:
                eng_bad.append(r)
            continue
        if v == 'ERROR':
            errors.append(r)
            continue
        if sp['expect'] == 'refute':
            if v == 'REFUTED':
                twins_ok += 1
            else:
                twins_bad += 1
                inconcl.append(dict(r, reason='vacuity/sensitivity twin not refuted: %s %s' % (v, r.get('reason', ''))))
            continue
        if v == 'CONFIRMED':
            confirmed += 1
        elif v == 'REFUTED':
            k = engine.match_known(known, r)
            if k is not None:
                known_hits.append((k, r))
            else:
                r['replay'] = engine.write_replay(r)
                violations.append(r)
        else:
            inconcl.append(r)

    if eng_bad:
        for r in eng_bad:
            print('ENGINE SELF-TEST FAILED: %s -> %s %s' % (r.get('name'), r['verdict'], r.get('reason', r.get('message', ''))))
        print('engine self-tests failed: no verdict of this run is believed')
        return 2
    for r in errors:
        print('HARNESS ERROR: %s: %s\n%s' % (r.get('name'), r.get('reason'), r.get('trace', '')))

    wall = time.time() - t0
    prop_res = [r for r in results if r['spec']['prop'] != 'ENGINE']
    if not a.no_evidence and not a.only:
        write_evidence(mod, prop, a.tier, seed, prop_res, confirmed, violations, known_hits, inconcl, errors, twins_ok, twins_bad, wall)
    seen = set()
    for k, r in known_hits:
        key = k.get('id') or json.dumps(k, sort_keys=True)
        if key in seen:
            continue
        seen.add(key)
        print('KNOWN-FINDING: property=%s %s' % (prop, k.get('what', k.get('id', ''))))
    for r in violations:
        print('  refuted: %s cex=%s detail=%s' % (r['name'], json.dumps(r.get('cex'), default=str)[:300], json.dumps(r.get('detail'), default=str)[:400]))
        print('VIOLATION property=%s replay=%s' % (prop, r['replay']))
    print('summary %s: obligations=%d confirmed=%d refuted=%d known=%d inconclusive=%d errors=%d twins_ok=%d paths=%d solver_queries=%d solver_s=%.1f wall=%.1fs' % (
        prop, len([r for r in prop_res if r['spec']['expect'] == 'hold']), confirmed, len(violations), len(known_hits), len(inconcl), len(errors), twins_ok,
        sum(r.get('paths', 0) or 0 for r in prop_res), sum(r.get('solver_queries', 0) or 0 for r in prop_res),
        sum(r.get('solver_s', 0) or 0 for r in prop_res), wall), flush=True)
    slow = sorted(prop_res, key=lambda r: -(r.get('wall_s') or 0))[:4]
    print('  slowest: ' + '; '.join('%s %.0fs/%sp' % (r.get('name'), r.get('wall_s') or 0, r.get('paths')) for r in slow))
    for r in inconcl[:40]:
        print('  inconclusive: %s: %s' % (r.get('name'), (r.get('reason') or '')[:200]))
    if violations:
        return 1
    if errors:
        return 2
    return 0


def write_evidence(mod, prop, tier, seed, results, confirmed, violations, known_hits, inconcl, errors, twins_ok, twins_bad, wall):
    meta = getattr(mod, 'META', {})
    hold = [r for r in results if r['spec']['expect'] == 'hold']
    paths = sum(r.get('paths', 0) or 0 for r in results)
    nontrivial = len(set(r['name'] for r in hold if (r.get('paths') or 0) >= 2 or (r.get('solver_queries') or 0) >= 1))
    samples = []
    seen_groups = set()
    for r in hold:
        g = r['spec'].get('group')
        if g in seen_groups:
            continue
        seen_groups.add(g)
        samples.append(dict(obligation=r['name'], bound=r['spec'].get('bound'), verdict=r['verdict'], paths=r.get('paths'),
                            solver_queries=r.get('solver_queries'), wall_s=r.get('wall_s'), cex=r.get('cex')))
        if len(samples) >= 25:
            break
    groups = {}
    for r in hold:
        g = groups.setdefault(r['spec'].get('group'), dict(obligations=0, confirmed=0, refuted=0, inconclusive=0, paths=0, solver_queries=0, solver_s=0.0, cpu_s=0.0))
        g['obligations'] += 1
        g['confirmed'] += r['verdict'] == 'CONFIRMED'
        g['refuted'] += r['verdict'] == 'REFUTED'
        g['inconclusive'] += r['verdict'] not in ('CONFIRMED', 'REFUTED')
        g['paths'] += r.get('paths', 0) or 0
        g['solver_queries'] += r.get('solver_queries', 0) or 0
        g['solver_s'] = round(g['solver_s'] + (r.get('solver_s', 0) or 0), 2)
        g['cpu_s'] = round(g['cpu_s'] + (r.get('wall_s', 0) or 0), 1)
    try:
        funcs = functions_entered(mod, results)
    except Exception as e:  # noqa
        funcs = ['<not measured: %s>' % e]
    for r in results:
        for x in r.get('encoded') or []:
            if x not in funcs:
                funcs.append(x)
    ev = dict(
        property_id=prop, tier=tier, seed=seed, level='other',
        coverage=dict(
            explanation=meta.get('explanation', '') + ' Verdict per obligation is the solver\'s over all values within the stated bound '
            '(CrossHair per-path symbolic execution of the real rxsci code with z3, exhaustive path exploration = CONFIRMED; '
            'or direct z3 queries over terms produced by executing the real closures). Counterexamples are replayed concretely before being reported.',
            evaluations=max(paths, 1),
            distinct_nontrivial=nontrivial,
            rule='evaluations = symbolic paths explored (each path is one solver-feasible class of inputs) plus direct solver queries; '
                 'an obligation is distinct by (family, shape parameters) and non-trivial when it explored >= 2 feasible paths or discharged >= 1 solver query',
            samples=samples,
            obligations=len(hold), discharged=confirmed, refuted=len(violations) + len(known_hits),
            known_findings=[k.get('id') for k, _ in known_hits],
            inconclusive=[dict(obligation=r.get('name'), reason=(r.get('reason') or '')[:300]) for r in inconcl],
            errors=[dict(obligation=r.get('name'), reason=r.get('reason')) for r in errors],
            vacuity_twins_refuted=twins_ok, vacuity_twins_failed=twins_bad,
            paths=paths,
            solver_queries=sum(r.get('solver_queries', 0) or 0 for r in results),
            solver_s=round(sum(r.get('solver_s', 0) or 0 for r in results), 2),
            cpu_s=round(sum(r.get('wall_s', 0) or 0 for r in results), 1),
            families=groups,
            bounds=meta.get('bounds', {}).get(tier, meta.get('bounds')),
            outside_bounds=meta.get('outside', ''),
            functions_encoded=funcs,
            stubs=meta.get('stubs', []),
            engine='crosshair-tool 0.0.110 + z3 %s (vp/chfix.py repairs applied, lemma self-tests passed)' % _z3v(),
            exhaustive=False,
        ),
        assumptions=meta.get('assumptions', []),
        wall_s=round(wall, 1),
        violations=len(violations),
    )
    d = os.environ.get('VERIF_EVIDENCE_DIR') or os.path.join(engine.ROOT, 'evidence')     # the override is a sizing / debugging aid, never set by the registered commands
    os.makedirs(d, exist_ok=True)
    with open(os.path.join(d, '%s.json' % prop), 'w') as f:
        json.dump(ev, f, indent=1, default=str)


def _z3v():
    try:
        import z3
        return z3.get_version_string()
    except Exception:
        return '?'


def functions_entered(mod, results):
    """rxsci functions executed by one concrete run of one harness per family
    (sys.setprofile over a plain run on a witness input)."""
    import contextlib
    import io
    fams = {}
    for r in results:
        sp = r['spec']
        if sp['kind'] != 'symx' or sp['expect'] != 'hold':
            continue
        fams.setdefault(sp['family'], sp)
    seen = set(getattr(mod, 'META', {}).get('functions', []))
    for fam, sp in fams.items():
        try:
            h = engine.build(sp)
        except Exception:
            continue
        import inspect
        args = getattr(h, 'vp_witness', None)
        if args is None:
            args = []
            for p in inspect.signature(h).parameters.values():
                t = p.annotation
                args.append({int: 0, str: '', bool: False, bytes: b'', float: 0.0}.get(t, 0))

        def prof(frame, event, arg):
            if event == 'call':
                fn = frame.f_code.co_filename
                if fn.startswith('/repo/rxsci/'):
                    seen.add('%s:%s' % (fn[len('/repo/'):], frame.f_code.co_qualname if hasattr(frame.f_code, 'co_qualname') else frame.f_code.co_name))
        sys.setprofile(prof)
        try:
            with contextlib.redirect_stdout(io.StringIO()):
                h(*args)
        except Exception:
            pass
        finally:
            sys.setprofile(None)
    return sorted(seen)


if __name__ == '__main__':
    sys.exit(main())
