"""ShortReadFile: file object whose read(n) returns between 1 and n items
(solver-chosen through the cut list) until EOF, then empty - the file-object
protocol allows any such short read; rxsci reads 64 KiB chunks, so a chunk
boundary may fall anywhere, including inside a quoted field or a multi-byte
sequence.  WriteBuffer collects what is written."""


from vp.harness import unmodelled_attr


class ShortReadFile(object):
    closed = False

    def __getattr__(self, name):
        unmodelled_attr('file object (reading) .', name)

    def __init__(self, data, cuts):
        self.data = data
        self.cuts = list(cuts)      # absolute positions at which reads stop short
        self.pos = 0
        self.reads = 0

    def read(self, n=-1):
        self.reads += 1
        if self.pos >= len(self.data):
            return self.data[:0]
        end = len(self.data) if (n is None or n < 0) else min(len(self.data), self.pos + n)
        for c in self.cuts:
            if self.pos < c < end:
                end = c
                break
        r = self.data[self.pos:end]
        self.pos = end
        return r

    def __enter__(self):
        return self

    def __exit__(self, *a):
        return False

    def close(self):
        self.closed = True


class WriteBuffer(object):
    def __getattr__(self, name):
        unmodelled_attr('file object (writing) .', name)

    def flush(self):
        pass

    def writelines(self, lines):
        for l in lines:
            self.write(l)

    def __init__(self, empty):
        self.parts = []
        self.empty = empty
        self.closed = False

    def write(self, d):
        self.parts.append(d)
        return len(d)

    def value(self):
        return self.empty.join(self.parts)

    def close(self):
        self.closed = True

    def __enter__(self):
        return self

    def __exit__(self, *a):
        self.closed = True
        return False


def validate():
    """a real temporary file larger than the 64 KiB read chunk behaves like a ShortReadFile with cuts at multiples of the chunk size"""
    import os
    import tempfile
    data = os.urandom(200 * 1024)
    fd, path = tempfile.mkstemp(prefix='vp-shortread-', dir='/var/tmp')
    try:
        with os.fdopen(fd, 'wb') as f:
            f.write(data)
        real = []
        with open(path, 'rb') as f:
            while True:
                d = f.read(64 * 1024)
                if not d:
                    break
                real.append(d)
        m = ShortReadFile(data, [])
        mine = []
        while True:
            d = m.read(64 * 1024)
            if not d:
                break
            mine.append(d)
        return real == mine and b''.join(real) == data
    finally:
        os.unlink(path)
