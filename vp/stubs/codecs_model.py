"""Pure-Python incremental codec models standing in for codecs.getincremental*
inside rxsci.data.codec (CPython's codecs are C code and realise symbolic
strings; CrossHair's own incremental-codec model raises IndexError on empty
input).  Linear arithmetic only (// and %, no shifts/masks).  utf-16 / utf-32 use
the native (little-endian) order and write the BOM on the first encode call, as
CPython does.  ``validate()`` compares every model with CPython on a boundary
alphabet and every cut."""
import codecs as _codecs
from vp.harness import unmodelled, unmodelled_attr


def _norm(enc):
    e = enc.lower().replace('_', '-')
    return {'utf8': 'utf-8', 'utf16': 'utf-16', 'utf32': 'utf-32', 'latin1': 'latin-1', 'iso-8859-1': 'latin-1'}.get(e, e)


class _Inc(object):
    """constructor and attribute surface shared by the incremental models: IncrementalEncoder/Decoder(errors='strict'), encode/decode(input, final=False)"""

    def __init__(self, errors='strict'):
        if errors != 'strict':
            unmodelled('incremental codec with errors=%r' % (errors,))
        self.errors = errors
        self._init()

    def _init(self):
        pass

    def reset(self):
        """documented: back to the initial state (an encoder writes its byte-order mark again, a decoder forgets pending bytes and the detected order)"""
        self._init()

    def __getattr__(self, name):
        unmodelled_attr('incremental codec .', name)


class U8Enc(_Inc):
    def encode(self, s, final=False):
        out = []
        for ch in s:
            c = ord(ch)
            if c < 0x80:
                out.append(c)
            elif c < 0x800:
                out += [0xC0 + c // 64, 0x80 + c % 64]
            elif c < 0x10000:
                if 0xD800 <= c <= 0xDFFF:
                    raise UnicodeEncodeError('utf-8', s, 0, 1, 'surrogates not allowed')
                out += [0xE0 + c // 4096, 0x80 + (c // 64) % 64, 0x80 + c % 64]
            else:
                out += [0xF0 + c // 262144, 0x80 + (c // 4096) % 64, 0x80 + (c // 64) % 64, 0x80 + c % 64]
        return bytes(out)


class U8Dec(_Inc):
    def _init(self):
        self.pend = []

    def decode(self, data, final=False):
        buf = self.pend + list(data)
        out = []
        i = 0
        while i < len(buf):
            b = buf[i]
            n = 1 if b < 0x80 else 2 if b < 0xE0 else 3 if b < 0xF0 else 4
            if i + n > len(buf):
                break
            if n == 1:
                c = b
            elif n == 2:
                c = (b - 0xC0) * 64 + (buf[i + 1] - 0x80)
            elif n == 3:
                c = (b - 0xE0) * 4096 + (buf[i + 1] - 0x80) * 64 + (buf[i + 2] - 0x80)
            else:
                c = (b - 0xF0) * 262144 + (buf[i + 1] - 0x80) * 4096 + (buf[i + 2] - 0x80) * 64 + (buf[i + 3] - 0x80)
            out.append(chr(c))
            i += n
        self.pend = buf[i:]
        if final and self.pend:
            raise UnicodeDecodeError('utf-8', bytes(self.pend), 0, 1, 'unexpected end of data')
        return ''.join(out)


class U16Enc(_Inc):
    def _init(self):
        self.bom = False

    def encode(self, s, final=False):
        out = []
        if not self.bom:
            out += [0xFF, 0xFE]
            self.bom = True
        for ch in s:
            c = ord(ch)
            if c < 0x10000:
                if 0xD800 <= c <= 0xDFFF:
                    raise UnicodeEncodeError('utf-16', s, 0, 1, 'surrogates not allowed')
                out += [c % 256, c // 256]
            else:
                v = c - 0x10000
                hi = 0xD800 + v // 1024
                lo = 0xDC00 + v % 1024
                out += [hi % 256, hi // 256, lo % 256, lo // 256]
        return bytes(out)


class U16Dec(_Inc):
    def _init(self):
        self.pend = []
        self.order = None      # None until the BOM position has been examined

    def decode(self, data, final=False):
        buf = self.pend + list(data)
        out = []
        i = 0
        if self.order is None and len(buf) >= 2:
            if buf[0] == 0xFF and buf[1] == 0xFE:
                self.order = 'le'
                i = 2
            elif buf[0] == 0xFE and buf[1] == 0xFF:
                self.order = 'be'
                i = 2
            else:
                self.order = 'le'
        if self.order is not None:
            while i + 2 <= len(buf):
                u = buf[i] + 256 * buf[i + 1] if self.order == 'le' else buf[i] * 256 + buf[i + 1]
                if 0xD800 <= u <= 0xDBFF:
                    if i + 4 > len(buf):
                        break
                    w = buf[i + 2] + 256 * buf[i + 3] if self.order == 'le' else buf[i + 2] * 256 + buf[i + 3]
                    out.append(chr(0x10000 + (u - 0xD800) * 1024 + (w - 0xDC00)))
                    i += 4
                else:
                    out.append(chr(u))
                    i += 2
        self.pend = buf[i:]
        if final and self.pend:
            raise UnicodeDecodeError('utf-16', bytes(self.pend), 0, 1, 'truncated data')
        return ''.join(out)


class U32Enc(_Inc):
    def _init(self):
        self.bom = False

    def encode(self, s, final=False):
        out = []
        if not self.bom:
            out += [0xFF, 0xFE, 0, 0]
            self.bom = True
        for ch in s:
            c = ord(ch)
            if 0xD800 <= c <= 0xDFFF:
                raise UnicodeEncodeError('utf-32', s, 0, 1, 'surrogates not allowed')
            out += [c % 256, (c // 256) % 256, c // 65536, 0]
        return bytes(out)


class U32Dec(_Inc):
    def _init(self):
        self.pend = []
        self.order = None

    def decode(self, data, final=False):
        buf = self.pend + list(data)
        out = []
        i = 0
        if self.order is None and len(buf) >= 4:
            if buf[0] == 0xFF and buf[1] == 0xFE and buf[2] == 0 and buf[3] == 0:
                self.order = 'le'
                i = 4
            elif buf[0] == 0 and buf[1] == 0 and buf[2] == 0xFE and buf[3] == 0xFF:
                self.order = 'be'
                i = 4
            else:
                self.order = 'le'
        if self.order is not None:
            while i + 4 <= len(buf):
                if self.order == 'le':
                    c = buf[i] + 256 * buf[i + 1] + 65536 * buf[i + 2] + 16777216 * buf[i + 3]
                else:
                    c = buf[i + 3] + 256 * buf[i + 2] + 65536 * buf[i + 1] + 16777216 * buf[i]
                out.append(chr(c))
                i += 4
        self.pend = buf[i:]
        if final and self.pend:
            raise UnicodeDecodeError('utf-32', bytes(self.pend), 0, 1, 'truncated data')
        return ''.join(out)


class L1Enc(_Inc):
    def encode(self, s, final=False):
        out = []
        for ch in s:
            c = ord(ch)
            if c > 0xFF:
                raise UnicodeEncodeError('latin-1', s, 0, 1, 'ordinal not in range(256)')
            out.append(c)
        return bytes(out)


class L1Dec(_Inc):
    def decode(self, data, final=False):
        return ''.join(chr(b) for b in data)


ENC = {'utf-8': U8Enc, 'utf-16': U16Enc, 'utf-32': U32Enc, 'latin-1': L1Enc}
DEC = {'utf-8': U8Dec, 'utf-16': U16Dec, 'utf-32': U32Dec, 'latin-1': L1Dec}


class _FakeCodecs(object):
    """stands in for the ``codecs`` module inside rxsci.data.codec: the two incremental factories are modelled, anything else is reported as not modelled"""
    calls = []

    def _get(self, table, enc):
        key = _norm(enc) if isinstance(enc, str) else enc
        if key not in table:
            unmodelled('codec %r' % (enc,))
        return table[key]

    def getincrementalencoder(self, encoding):
        self.calls.append(('enc', encoding))
        return self._get(ENC, encoding)

    def getincrementaldecoder(self, encoding):
        self.calls.append(('dec', encoding))
        return self._get(DEC, encoding)

    def __getattr__(self, name):
        unmodelled_attr('codecs.', name)


FakeCodecs = _FakeCodecs()


ALPHABET = [0x0, 0x41, 0x7F, 0x80, 0x7FF, 0x800, 0xD7FF, 0xE000, 0xFEFF, 0xFFFF, 0x10000, 0x10FFFF, 0x0A, 0x301]


def validate():
    """every model vs CPython: all 1-2 code-point strings from the boundary alphabet, every cut, byte by byte"""
    for enc in ENC:
        alpha = [c for c in ALPHABET if enc != 'latin-1' or c <= 0xFF] + ([0xE9, 0xFF] if enc == 'latin-1' else [])
        strs = [''] + [chr(a) for a in alpha] + [chr(a) + chr(b) for a in alpha for b in alpha]
        for s in strs:
            for split in range(len(s) + 1):
                parts = [s[:split], s[split:]]
                m = ENC[enc]()
                r = _codecs.getincrementalencoder(enc)()
                mo = [m.encode(x) for x in parts] + [m.encode('', final=True)]
                ro = [r.encode(x) for x in parts] + [r.encode('', final=True)]
                if mo != ro:
                    return 'encoder %s on %r: %r vs %r' % (enc, parts, mo, ro)
            data = b''.join(ro)
            for cut in range(len(data) + 1):
                m = DEC[enc]()
                r = _codecs.getincrementaldecoder(enc)()
                mo = [m.decode(data[:cut]), m.decode(data[cut:]), m.decode(b'', final=True)]
                ro2 = [r.decode(data[:cut]), r.decode(data[cut:]), r.decode(b'', final=True)]
                if mo != ro2:
                    return 'decoder %s on %r cut %d: %r vs %r' % (enc, data, cut, mo, ro2)
            # reset(): the same text encoded twice through one object with a reset in between equals two fresh encodings; likewise for decoding
            m = ENC[enc]()
            r = _codecs.getincrementalencoder(enc)()
            mo = [m.encode(s, True)]
            ro = [r.encode(s, True)]
            m.reset()
            r.reset()
            mo.append(m.encode(s, True))
            ro.append(r.encode(s, True))
            if mo != ro:
                return 'encoder %s reset on %r: %r vs %r' % (enc, s, mo, ro)
            m = DEC[enc]()
            r = _codecs.getincrementaldecoder(enc)()
            half = data[:len(data) // 2]
            m.decode(half)
            r.decode(half)
            m.reset()
            r.reset()
            if m.decode(data, True) != r.decode(data, True):
                return 'decoder %s reset on %r' % (enc, data)
            if len(s) == 2:
                m = DEC[enc]()
                r = _codecs.getincrementaldecoder(enc)()
                mo = [m.decode(data[i:i + 1]) for i in range(len(data))]
                ro2 = [r.decode(data[i:i + 1]) for i in range(len(data))]
                if mo != ro2:
                    return 'decoder %s bytewise on %r' % (enc, data)
    return None
