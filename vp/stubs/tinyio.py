"""TinyBytesIO: pure-Python stand-in for io.BytesIO inside rxsci.framing.length_prefix
(io.BytesIO is C code and realises symbolic bytes).  Contract modelled: write at
the current position, read(n) / read(), seek(off, SEEK_SET), getbuffer() (length
only), close.  Validated against io.BytesIO by ``validate()``."""
import io as _io
from vp.harness import unmodelled, unmodelled_attr


class TinyBytesIO(object):
    def __init__(self, initial=b''):
        self.buf = initial
        self.pos = 0

    def write(self, b):
        self.buf = self.buf[:self.pos] + b + self.buf[self.pos + len(b):]
        self.pos += len(b)
        return len(b)

    def getbuffer(self):
        return self.buf

    def getvalue(self):
        return self.buf

    def tell(self):
        return self.pos

    def seek(self, off, whence=0):
        if whence == 0:
            self.pos = off
        elif whence == 1:
            self.pos = self.pos + off
        elif whence == 2:
            self.pos = len(self.buf) + off
        else:
            unmodelled('BytesIO.seek whence=%r' % (whence,))
        return self.pos

    def __getattr__(self, name):
        unmodelled_attr('io.BytesIO.', name)

    def read(self, n=-1):
        if n is None or n < 0:
            r = self.buf[self.pos:]
        else:
            r = self.buf[self.pos:self.pos + n]
        self.pos += len(r)
        return r

    def close(self):
        pass


class _FakeIO(object):
    BytesIO = TinyBytesIO
    SEEK_SET, SEEK_CUR, SEEK_END = 0, 1, 2

    def __getattr__(self, name):
        unmodelled_attr('io.', name)


FakeIO = _FakeIO()


def validate():
    """differential run against io.BytesIO on the operation sequences rxsci uses"""
    import random
    r = random.Random(7)
    for _ in range(300):
        a, b = _io.BytesIO(), TinyBytesIO()
        for _ in range(r.randint(1, 8)):
            op = r.choice(['write', 'read', 'readn', 'seek', 'len'])
            if op == 'write':
                d = bytes(r.randint(0, 255) for _ in range(r.randint(0, 5)))
                a.seek(0, 2)
                b.seek(len(b.getbuffer()))
                if a.write(d) != b.write(d):
                    return False
            elif op == 'read':
                if a.read() != b.read():
                    return False
            elif op == 'readn':
                n = r.randint(0, 6)
                if a.read(n) != b.read(n):
                    return False
            elif op == 'seek':
                o = r.randint(0, len(a.getbuffer()))
                a.seek(o, _io.SEEK_SET)
                b.seek(o, FakeIO.SEEK_SET)
            else:
                if len(a.getbuffer()) != len(b.getbuffer()):
                    return False
    return True
