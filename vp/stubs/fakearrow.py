"""FakeArrow: contract stub for the names ``pa`` and ``pq`` inside
rxsci.container.parquet (pyarrow is C++).  Contract modelled: pa.array(values)
copies the values; RecordBatch.from_arrays holds the given columns;
ParquetWriter.write(batch) appends the batch's rows to the file;
ParquetFile(file).iter_batches(batch_size) yields the file's rows in order in
chunks of at most batch_size; schema.names are the column names.
``validate()`` runs identical scenarios through the real pyarrow and the fake."""


from vp.harness import unmodelled_attr


class FSchema(object):
    def __getattr__(self, name):
        unmodelled_attr('pyarrow schema .', name)

    def __init__(self, names, types=None):
        self.names = list(names)
        self.types = list(types) if types else [None] * len(self.names)

    def to_arrow_schema(self):
        return self


class FArray(object):
    def __init__(self, data):
        self.data = [x for x in data]       # pa.array copies

    def __getattr__(self, name):
        unmodelled_attr('pyarrow array .', name)

    def __len__(self):
        return len(self.data)

    def to_pylist(self):
        return list(self.data)


class FBatch(object):
    def __init__(self, arrays, schema):
        self.arrays = arrays
        self.schema = schema

    def rows(self):
        n = len(self.arrays[0].data) if self.arrays else 0
        return [tuple(a.data[i] for a in self.arrays) for i in range(n)]

    def to_pydict(self):
        return {n: list(a.data) for n, a in zip(self.schema.names, self.arrays)}

    def to_pylist(self):
        return [dict(zip(self.schema.names, r)) for r in self.rows()]

    @property
    def num_rows(self):
        return len(self.arrays[0].data) if self.arrays else 0

    @property
    def num_columns(self):
        return len(self.arrays)

    @property
    def columns(self):
        return list(self.arrays)

    def column(self, i):
        return self.arrays[self.schema.names.index(i) if isinstance(i, str) else i]

    def __getattr__(self, name):
        unmodelled_attr('pyarrow record batch .', name)


class _RecordBatch(object):
    @staticmethod
    def from_arrays(arrays, schema=None, names=None):
        for a in arrays:
            if len(a.data) != len(arrays[0].data):
                raise ValueError('columns of different lengths')
        return FBatch(list(arrays), schema)


UNMODELLED = []     # keyword arguments the stub does not model: a harness that sees any must answer 'inconclusive', never 'violation'


class _Table(object):
    @staticmethod
    def from_batches(batches, schema=None):
        """documented: a table holding the rows of the record batches, in order"""
        batches = list(batches)
        sch = schema if schema is not None else (batches[0].schema if batches else None)
        ncol = len(sch.names) if sch is not None else 0
        cols = []
        for c in range(ncol):
            data = []
            for b in batches:
                data = data + list(b.arrays[c].data)
            cols.append(FArray(data))
        return FBatch(cols, sch)


class _FakePA(object):
    RecordBatch = _RecordBatch
    Schema = FSchema
    Table = _Table

    @staticmethod
    def concat_arrays(arrays, **kw):
        for k in kw:
            UNMODELLED.append('pa.concat_arrays(%s=...)' % k)
        data = []
        for a in arrays:
            data = data + list(a.data)
        return FArray(data)

    def __getattr__(self, name):
        UNMODELLED.append('pa.' + name)
        unmodelled_attr('pyarrow.', name)

    @staticmethod
    def array(data, type=None, from_pandas=False, safe=True, **kw):
        for k in kw:
            UNMODELLED.append('pa.array(%s=...)' % k)
        if safe is not True:
            UNMODELLED.append('pa.array(safe=%r)' % (safe,))
        if from_pandas:
            # documented: "use pandas's semantics for inferring nulls from values" - a NaN becomes a null cell
            data = [None if (isinstance(x, float) and x != x) else x for x in data]
        return FArray(data)


FakePA = _FakePA()


class FFile(object):
    """stands for the parquet file (path or file object)"""

    def __init__(self):
        self.rows = []
        self.schema = None
        self.writer_closed = False
        self.writes = []
        self.options = None
        self.closed = False

    def close(self):
        self.closed = True

    def __enter__(self):
        return self

    def __exit__(self, *a):
        self.closed = True
        return False


class _Writer(object):
    def __init__(self, f, schema, compression=None, encryption_properties=None, **kw):
        self.f = f
        f.schema = schema
        f.options = dict(compression=compression)
        self.closed = False

    def write(self, batch, row_group_size=None):
        if self.closed:
            raise ValueError('write after close')
        rows = batch.rows()
        self.f.writes.append(len(rows))
        self.f.rows.extend(rows)

    def write_batch(self, batch, row_group_size=None):
        self.write(batch, row_group_size)

    def write_table(self, table, row_group_size=None):
        self.write(table, row_group_size)

    def close(self):
        self.closed = True
        self.f.writer_closed = True

    def __getattr__(self, name):
        unmodelled_attr('ParquetWriter.', name)

    def __enter__(self):
        return self

    def __exit__(self, *a):
        self.close()
        return False


class _PFile(object):
    def __init__(self, f, decryption_properties=None, **kw):
        self.f = f
        self.schema = f.schema
        self.closed = False
        self.batch_sizes = []

    def iter_batches(self, batch_size=65536, use_threads=True, **kw):
        self.batch_sizes.append(batch_size)
        rows = self.f.rows
        for i in range(0, len(rows), batch_size):
            chunk = rows[i:i + batch_size]
            arrays = [FArray([r[c] for r in chunk]) for c in range(len(self.schema.names))]
            yield FBatch(arrays, self.schema)

    def close(self):
        self.closed = True

    def __getattr__(self, name):
        unmodelled_attr('ParquetFile.', name)


class _FakePQ(object):
    ParquetWriter = _Writer
    ParquetFile = _PFile
    FileEncryptionProperties = object
    FileDecryptionProperties = object

    def __getattr__(self, name):
        UNMODELLED.append('pq.' + name)
        unmodelled_attr('pyarrow.parquet.', name)


FakePQ = _FakePQ()


def validate():
    """the same dump scenarios through the real pyarrow and through the fake must leave the same rows in the file, and loading must return the same rows"""
    import os
    import sys
    import tempfile
    import pyarrow as pa
    import pyarrow.parquet as pq
    import rx
    from rx.scheduler import ImmediateScheduler
    import rxsci.container.parquet as P
    mod = sys.modules['rxsci.container.parquet']
    # cells: a NaN is a float value, None a null; from_pandas=True (pandas semantics) turns NaN into null - the same in the real library and in the fake
    import math
    cells = [1.5, float('nan'), None, -0.0, float('inf')]

    def shape(vals):
        return ['nan' if (isinstance(x, float) and x != x) else ('-0' if (isinstance(x, float) and x == 0 and math.copysign(1, x) < 0) else x) for x in vals]
    for fp in (False, True):
        real = shape(pa.array(cells, type=pa.float64(), from_pandas=fp).to_pylist())
        fake = shape(FakePA.array(cells, type=None, from_pandas=fp).to_pylist())
        if real != fake:
            return 'pa.array(from_pandas=%s): real %r, fake %r' % (fp, real, fake)
    # concat_arrays / Table.from_batches: the elements / rows of the parts, in order
    ra = pa.concat_arrays([pa.array([1, 2]), pa.array([], type=pa.int64()), pa.array([3])]).to_pylist()
    fa = FakePA.concat_arrays([FakePA.array([1, 2]), FakePA.array([]), FakePA.array([3])]).to_pylist()
    if ra != fa:
        return 'concat_arrays: real %r, fake %r' % (ra, fa)
    rsch = pa.schema([('a', pa.int64()), ('b', pa.string())])
    rb = [pa.RecordBatch.from_arrays([pa.array([1, 2]), pa.array(['x', 'y'])], schema=rsch), pa.RecordBatch.from_arrays([pa.array([3]), pa.array(['z'])], schema=rsch)]
    fsch = FSchema(['a', 'b'])
    fb = [FakePA.RecordBatch.from_arrays([FakePA.array([1, 2]), FakePA.array(['x', 'y'])], schema=fsch), FakePA.RecordBatch.from_arrays([FakePA.array([3]), FakePA.array(['z'])], schema=fsch)]
    rt, ft = pa.Table.from_batches(rb, schema=rsch), FakePA.Table.from_batches(fb, schema=fsch)
    if rt.to_pylist() != ft.to_pylist() or rt.num_rows != ft.num_rows:
        return 'Table.from_batches: real %r, fake %r' % (rt.to_pylist(), ft.to_pylist())
    grid = [(0, 3), (1, 1), (3, 1), (4, 2), (5, 2), (6, 3), (7, 3), (3, 10), (2048, 1024), (5000, 999)]
    for n, bs in grid:
        rows = [dict(a=i, b='s%d' % (i % 13)) for i in range(n)]
        fd, path = tempfile.mkstemp(prefix='vp-pq-', dir='/var/tmp')
        os.close(fd)
        try:
            rx.from_(rows).pipe(P.dump_to_file(path, pa.schema([('a', pa.int64()), ('b', pa.string())]), batch_size=bs, compression='zstd' if n % 2 else 'snappy')).subscribe()
            real_rows = pq.read_table(path).to_pylist()
            real_loaded = []
            for lb in (1, 7, 1024):
                got = []
                P.load_from_file(path, batch_size=lb).subscribe(on_next=got.append, scheduler=ImmediateScheduler())
                real_loaded.append(got)
        finally:
            os.unlink(path)
        spa, spq = mod.pa, mod.pq
        mod.pa, mod.pq = FakePA, FakePQ
        try:
            f = FFile()
            rx.from_(rows).pipe(P.dump_to_file(f, FSchema(['a', 'b']), batch_size=bs)).subscribe()
            fake_rows = [dict(a=r[0], b=r[1]) for r in f.rows]
            fake_loaded = []
            for lb in (1, 7, 1024):
                got = []
                P.load_from_file(f, batch_size=lb).subscribe(on_next=got.append, scheduler=ImmediateScheduler())
                fake_loaded.append(got)
        finally:
            mod.pa, mod.pq = spa, spq
        if real_rows != fake_rows:
            return 'rows in file differ for (rows=%d, batch=%d): real %d rows, fake %d rows' % (n, bs, len(real_rows), len(fake_rows))
        if real_loaded != fake_loaded:
            return 'loaded rows differ for (rows=%d, batch=%d)' % (n, bs)
    return None
