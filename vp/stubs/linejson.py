"""LineJSON: contract stub for the serializer name ``json`` inside
rxsci.container.json (orjson / stdlib json are C code).  Contract modelled:
dumps(x) is an injective text without a raw newline (bytes-like with .decode()
when the orjson flag is in force), loads is its inverse and raises on malformed
input.  Objects are abstract: a symbolic text stands for one object."""


from vp.harness import unmodelled, unmodelled_attr


class BytesLike(object):
    def __init__(self, s):
        self.s = s

    def decode(self, *a):
        return self.s


class LineJSON(object):
    def __init__(self, as_bytes):
        self.as_bytes = as_bytes
        self.dumped = 0
        self.loaded = 0

    JSONDecodeError = ValueError
    OPT_APPEND_NEWLINE = 1024        # orjson's option: would break "no raw newline in dumps output" - reported as not modelled when used

    def __getattr__(self, name):
        unmodelled_attr('json.', name)

    def dumps(self, obj, *a, **kw):
        if a or kw.get('indent') is not None or kw.get('option'):
            unmodelled('json.dumps%r%r' % (a, sorted(kw)))
        self.dumped += 1
        out = ['J']
        for ch in obj:
            if ch == '\\':
                out.append('\\\\')
            elif ch == '\n':
                out.append('\\n')
            else:
                out.append(ch)
        t = ''.join(out)
        return BytesLike(t) if self.as_bytes else t

    def loads(self, text, *a, **kw):
        if a or kw:
            unmodelled('json.loads%r%r' % (a, sorted(kw)))
        self.loaded += 1
        if isinstance(text, (bytes, bytearray)):
            text = text.decode('utf-8')
        if len(text) == 0 or text[0] != 'J':
            raise ValueError('malformed')
        out = []
        esc = False
        for ch in text[1:]:
            if esc:
                if ch == 'n':
                    out.append('\n')
                elif ch == '\\':
                    out.append('\\')
                else:
                    raise ValueError('malformed escape')
                esc = False
            elif ch == '\\':
                esc = True
            elif ch == '\n':
                raise ValueError('raw newline')
            else:
                out.append(ch)
        if esc:
            raise ValueError('dangling escape')
        return ''.join(out)


def validate():
    """the contract clauses on the real serializers: no raw newline in dumps output, loads(dumps(x)) == x"""
    import json as stdjson
    mods = [('json', stdjson, False)]
    try:
        import orjson
        mods.append(('orjson', orjson, True))
    except Exception:
        pass
    objs = [{'a': 'line1\nline2'}, {'q': 'say "hi"', 'n': None}, {'u': 'é€\U00010000́'}, {'nested': [1, 2.5, True, {'k': [None, 'x\r\ny']}], 'i': 2 ** 63 - 1},
            {'bs': 'back\\slash\\n'}, {}, {'e': ''}]
    for name, m, is_bytes in mods:
        for o in objs:
            d = m.dumps(o)
            raw = d if isinstance(d, bytes) else d.encode('utf-8')
            if is_bytes != isinstance(d, bytes):
                return '%s: dumps type' % name
            if b'\n' in raw:
                return '%s: raw newline in dumps output' % name
            if m.loads(d) != o:
                return '%s: loads(dumps(x)) != x for %r' % (name, o)
    st = LineJSON(False)
    for t in ['', 'a', '\n', '\\', '\\n', 'a\nb\\', '"', 'é\U00010000']:
        if '\n' in st.dumps(t) or st.loads(st.dumps(t)) != t:
            return 'stub not injective / newline-free on %r' % t
    return None
