"""StreamCodec: contract stub for zlib (inside rxsci.compression.z) and
zstandard (inside rxsci.compression.zstd).

Contract modelled (what rxsci's wrappers rely on):
* compressor: the output of compress() calls followed by flush() is, concatenated, one self-delimiting stream header + body + end-of-stream trailer; how much each
  compress() call returns is arbitrary (decided by a list of buffering points the harness makes symbolic); flush() returns everything pending plus the trailer.
* decompressor: accepts the stream in any chunking, returns the payload bytes available so far, ``eof`` becomes True exactly when the trailer has been consumed,
  flush() returns pending output (none here).
* the stub records constructor arguments, every call and its argument, in order.

Stream format of the stub: header (b'\\x1f\\x8b' when gzip framing was requested with wbits = MAX_WBITS | 16, b'\\x78\\x9c' for plain zlib, b'\\x28\\xb5' for zstd),
then for every payload byte the two bytes [1, byte] - or, for a run, the token [2, c2, c1, c0, byte] standing for c2*65536 + c1*256 + c0 copies of byte (compressible data: a few stream bytes expand to megabytes) - then the trailer byte [0].
``validate()`` checks the same contract clauses on the real zlib / zstandard."""


from vp.harness import unmodelled, unmodelled_attr


class Recorder(object):
    def __init__(self):
        self.calls = []
        self.cuts = []      # buffering points of the compressor, consumed one per compress() call


class _Comp(object):
    def __init__(self, rec, header, finish_mode, partial_modes):
        self.rec = rec
        self.buf = header
        self.flushed = False
        self.finish_mode = finish_mode        # zlib.Z_FINISH / zstandard.COMPRESSOBJ_FLUSH_FINISH: the default of flush()
        self.partial_modes = partial_modes    # flush modes that hand out what is pending without ending the stream

    def __getattr__(self, name):
        unmodelled_attr('compression object .', name)

    def compress(self, data):
        self.rec.calls.append(('compress', data))
        if self.flushed:
            raise ValueError('compress after flush')
        enc = []
        for b in data:
            enc += [1, b]
        self.buf = self.buf + bytes(enc)
        c = self.rec.cuts.pop(0) if self.rec.cuts else 0
        if c < 0:
            c = 0
        if c > len(self.buf):
            c = len(self.buf)
        out, self.buf = self.buf[:c], self.buf[c:]
        return out

    def flush(self, *a, **kw):
        mode = self.finish_mode
        if len(a) == 1 and not kw:
            mode = a[0]
        elif a or kw:
            if list(kw) in (['mode'], ['flush_mode']) and not a:
                mode = list(kw.values())[0]
            else:
                unmodelled('flush%r%r' % (a, kw))
        if mode != self.finish_mode:
            if mode not in self.partial_modes:
                unmodelled('flush mode %r' % (mode,))
            self.rec.calls.append(('flush_partial', mode))
            if self.flushed:
                raise ValueError('flush after the end of the stream')
            out, self.buf = self.buf, b''
            return out
        self.rec.calls.append(('flush',))
        if self.flushed:
            raise ValueError('flush called twice')
        self.flushed = True
        out, self.buf = self.buf + b'\x00', b''
        return out


class CodecError(Exception):
    pass


class _Decomp(object):
    # zstandard's decompressobj refuses any further decompress() call once the frame has ended (even with empty input);
    # zlib's accepts it and files the bytes under unused_data.  Both behaviours are part of the contract and are validated.
    reusable_after_eof = True

    def __init__(self, rec, header):
        self.rec = rec
        self.header = header
        self.pos = 0          # bytes of header consumed
        self.state = 'head'   # head | marker | byte | eof
        self.eof = False
        self.unused_data = b''
        self.unconsumed_tail = b''
        self.run_left = 0
        self.run_byte = 0
        self.cnt = []

    def __getattr__(self, name):
        unmodelled_attr('decompression object .', name)

    def decompress(self, data, max_length=0):
        """zlib's optional max_length: at most that many output bytes are returned; input not yet consumed is kept in unconsumed_tail, output of a run that
        did not fit stays pending inside the object and comes out of the next call (which is how zlib behaves in the middle of a long match)"""
        self.rec.calls.append(('decompress', data))
        if self.eof and not self.reusable_after_eof:
            raise CodecError('cannot use a decompressobj multiple times')
        if max_length and not self.reusable_after_eof:
            unmodelled('zstandard decompressobj.decompress(max_length)')
        parts = []
        cur = []
        produced = 0
        self.unconsumed_tail = b''
        pos = 0
        n = len(data)
        while True:
            if self.run_left:
                room = self.run_left if not max_length else min(self.run_left, max_length - produced)
                if room > 0:
                    if cur:
                        parts.append(bytes(cur))
                        cur = []
                    parts.append(bytes([self.run_byte]) * room)
                    produced += room
                    self.run_left -= room
                if self.run_left:
                    break
            if pos >= n or (max_length and produced >= max_length):
                break
            b = data[pos]
            pos += 1
            if self.state == 'head':
                if b != self.header[self.pos]:
                    raise ValueError('bad header')
                self.pos += 1
                if self.pos == len(self.header):
                    self.state = 'marker'
            elif self.state == 'marker':
                if b == 0:
                    self.state = 'eof'
                    self.eof = True
                elif b == 1:
                    self.state = 'byte'
                elif b == 2:
                    self.state = 'cnt'
                    self.cnt = []
                else:
                    raise ValueError('corrupt stream')
            elif self.state == 'byte':
                cur.append(b)
                produced += 1
                self.state = 'marker'
            elif self.state == 'cnt':
                self.cnt.append(b)
                if len(self.cnt) == 3:
                    self.state = 'rbyte'
            elif self.state == 'rbyte':
                self.run_left = self.cnt[0] * 65536 + self.cnt[1] * 256 + self.cnt[2]
                self.run_byte = b
                self.state = 'marker'
            else:
                self.unused_data += bytes([b])
        if pos < n:
            self.unconsumed_tail = bytes(data[pos:])
        if cur:
            parts.append(bytes(cur))
        res = b''
        for part in parts:
            res = res + part
        return res

    def flush(self):
        self.rec.calls.append(('dflush',))
        return b''


GZIP = b'\x1f\x8b'
ZLIB = b'\x78\x9c'
ZSTD = b'\x28\xb5'


class FakeZlib(object):
    MAX_WBITS = 15
    DEFLATED = 8
    DEF_MEM_LEVEL = 8
    DEF_BUF_SIZE = 16384
    Z_NO_COMPRESSION, Z_BEST_SPEED, Z_BEST_COMPRESSION, Z_DEFAULT_COMPRESSION = 0, 1, 9, -1
    Z_DEFAULT_STRATEGY, Z_FILTERED, Z_HUFFMAN_ONLY, Z_RLE, Z_FIXED = 0, 1, 2, 3, 4
    Z_NO_FLUSH, Z_PARTIAL_FLUSH, Z_SYNC_FLUSH, Z_FULL_FLUSH, Z_FINISH, Z_BLOCK = 0, 1, 2, 3, 4, 5
    error = CodecError

    def __init__(self, rec):
        self.rec = rec

    def __getattr__(self, name):
        unmodelled_attr('zlib.', name)

    def _hdr(self, wbits):
        """container selected by wbits, as documented: 9..15 zlib, 25..31 gzip; raw deflate (negative) and header auto-detection (+32) are not modelled"""
        if isinstance(wbits, int) and 9 <= wbits <= 15:
            return ZLIB
        if isinstance(wbits, int) and 25 <= wbits <= 31:
            return GZIP
        unmodelled('zlib wbits=%r' % (wbits,))

    def compressobj(self, *a, **kw):
        self.rec.calls.append(('compressobj', a, dict(kw)))
        names = ['level', 'method', 'wbits', 'memLevel', 'strategy', 'zdict']
        if len(a) > len(names) or any(k not in names for k in kw) or 'zdict' in kw or len(a) > 5:
            unmodelled('zlib.compressobj%r%r' % (a, kw))
        args = dict(zip(names, a))
        args.update(kw)
        if args.get('method', 8) != 8:
            unmodelled('zlib.compressobj method=%r' % (args['method'],))
        return _Comp(self.rec, self._hdr(args.get('wbits', self.MAX_WBITS)), self.Z_FINISH, (self.Z_SYNC_FLUSH, self.Z_FULL_FLUSH))

    def decompressobj(self, *a, **kw):
        self.rec.calls.append(('decompressobj', a, dict(kw)))
        names = ['wbits', 'zdict']
        if len(a) > 1 or any(k != 'wbits' for k in kw):
            unmodelled('zlib.decompressobj%r%r' % (a, kw))
        args = dict(zip(names, a))
        args.update(kw)
        return _Decomp(self.rec, self._hdr(args.get('wbits', self.MAX_WBITS)))


class FakeZstd(object):
    COMPRESSOBJ_FLUSH_FINISH = 0
    COMPRESSOBJ_FLUSH_BLOCK = 1
    MAX_COMPRESSION_LEVEL = 22
    ZstdError = CodecError

    def __getattr__(self, name):
        unmodelled_attr('zstandard.', name)

    def __init__(self, rec):
        self.rec = rec
        outer = self

        class ZstdCompressor(object):
            def __init__(self, *a, **kw):
                outer.rec.calls.append(('ZstdCompressor', a, dict(kw)))
                if len(a) > 1 or any(k not in ('level', 'threads', 'write_checksum', 'write_content_size') for k in kw):
                    unmodelled('ZstdCompressor%r%r' % (a, kw))

            def __getattr__(self, name):
                unmodelled_attr('ZstdCompressor.', name)

            def compressobj(self, *a, **kw):
                outer.rec.calls.append(('compressobj', a, dict(kw)))
                if a or any(k != 'size' for k in kw):
                    unmodelled('ZstdCompressor.compressobj%r%r' % (a, kw))
                return _Comp(outer.rec, ZSTD, outer.COMPRESSOBJ_FLUSH_FINISH, (outer.COMPRESSOBJ_FLUSH_BLOCK,))

        class ZstdDecompressor(object):
            def __init__(self, *a, **kw):
                outer.rec.calls.append(('ZstdDecompressor', a, dict(kw)))
                if a or kw:
                    unmodelled('ZstdDecompressor%r%r' % (a, kw))

            def __getattr__(self, name):
                unmodelled_attr('ZstdDecompressor.', name)

            def decompressobj(self, *a, **kw):
                outer.rec.calls.append(('decompressobj', a, dict(kw)))
                if a or kw:
                    unmodelled('ZstdDecompressor.decompressobj%r%r' % (a, kw))
                d = _Decomp(outer.rec, ZSTD)
                d.reusable_after_eof = False
                return d
        self.ZstdCompressor = ZstdCompressor
        self.ZstdDecompressor = ZstdDecompressor


def stream_runs(header, runs):
    """runs: list of (count, byte); count 1 is written as a single, larger counts as a run token"""
    enc = []
    for count, b in runs:
        if count == 1:
            enc += [1, b]
        else:
            enc += [2, count // 65536, (count // 256) % 256, count % 256, b]
    return header + bytes(enc) + b'\x00'


def stream(header, payload):
    enc = []
    for b in payload:
        enc += [1, b]
    return header + bytes(enc) + b'\x00'


def validate():
    """the contract clauses on the real zlib and zstandard (concrete sanity run)"""
    import gzip
    import os
    import zlib
    import zstandard
    samples = [[], [b''], [b'a'], [b'hello ', b'', b'world'], [os.urandom(300 * 1024)], [b'x' * 100000, b'y' * 70000]]
    for chunks in samples:
        want = b''.join(chunks)
        for name in ('zlib', 'zstd'):
            if name == 'zlib':
                c = zlib.compressobj(wbits=zlib.MAX_WBITS | 16)
            else:
                c = zstandard.ZstdCompressor().compressobj()
            outs = [c.compress(x) for x in chunks] + [c.flush()]
            whole = b''.join(outs)
            if name == 'zlib':
                if whole[:2] != GZIP or gzip.decompress(whole) != want:
                    return 'zlib: not a standalone gzip file'
                if b''.join([zlib.compressobj().compress(b'a'), b''])[:1] not in (b'\x78', b''):
                    return 'zlib: plain header'
            else:
                if zstandard.ZstdDecompressor().stream_reader(whole).read() != want:
                    return 'zstd: not a standalone zstd frame'
            for cuts in ([], [1], [len(whole) // 2], [3, len(whole) - 1], list(range(1, min(len(whole), 40)))):
                d = zlib.decompressobj(wbits=zlib.MAX_WBITS | 16) if name == 'zlib' else zstandard.ZstdDecompressor().decompressobj()
                pieces = []
                prev = 0
                for k in cuts + [len(whole)]:
                    pieces.append(whole[prev:k])
                    prev = k
                got = b''
                for i, pc in enumerate(pieces):
                    if d.eof and i < len(pieces) and pc:
                        return '%s: eof before the last byte' % name
                    got += d.decompress(pc)
                if not d.eof:
                    return '%s: eof false after complete stream' % name
                got += d.flush() if name == 'zlib' else (d.flush() or b'')
                if got != want:
                    return '%s: payload mismatch' % name
            # after the end of the stream: zlib accepts further (empty) input, zstandard raises
            d = zlib.decompressobj(wbits=zlib.MAX_WBITS | 16) if name == 'zlib' else zstandard.ZstdDecompressor().decompressobj()
            d.decompress(whole)
            try:
                d.decompress(b'')
                raised = False
            except Exception:
                raised = True
            if raised != (name == 'zstd'):
                return '%s: decompress(b"") after eof %s' % (name, 'raises' if raised else 'does not raise')
            for t in (0, 1, len(whole) // 2, len(whole) - 1):
                d = zlib.decompressobj(wbits=zlib.MAX_WBITS | 16) if name == 'zlib' else zstandard.ZstdDecompressor().decompressobj()
                d.decompress(whole[:t])
                if d.eof:
                    return '%s: eof true on truncated stream (%d of %d)' % (name, t, len(whole))
    # zlib's max_length on compressible data: calling decompress(unconsumed_tail, M) until eof delivers the payload in pieces of at most M bytes
    # (the wrappers under test do not use max_length today; a change that starts to must follow this protocol)
    big = b'A' * (3 * 1024 * 1024 + 5) + b'z'
    c = zlib.compressobj(wbits=zlib.MAX_WBITS | 16)
    real_stream = c.compress(big) + c.flush()
    fake_stream = stream_runs(GZIP, [(3 * 1024 * 1024 + 5, 65), (1, 122)])
    for M in (1024 * 1024, 4096):
        for name in ('zlib', 'stub'):
            d = zlib.decompressobj(wbits=zlib.MAX_WBITS | 16) if name == 'zlib' else FakeZlib(Recorder()).decompressobj(wbits=FakeZlib.MAX_WBITS | 16)
            data = real_stream if name == 'zlib' else fake_stream
            got = []
            calls = 0
            while not d.eof and calls < 5000:
                piece = d.decompress(data, M)
                calls += 1
                if len(piece) > M:
                    return '%s: max_length exceeded' % name
                got.append(piece)
                data = d.unconsumed_tail
            if not d.eof or b''.join(got) != big:
                return '%s: drain protocol with max_length=%d does not deliver the payload' % (name, M)
            # without the limit one call delivers everything
            d = zlib.decompressobj(wbits=zlib.MAX_WBITS | 16) if name == 'zlib' else FakeZlib(Recorder()).decompressobj(wbits=FakeZlib.MAX_WBITS | 16)
            if d.decompress(real_stream if name == 'zlib' else fake_stream) != big or not d.eof:
                return '%s: unlimited decompress' % name
    return None
