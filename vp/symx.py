"""CrossHair driver: runs one harness function symbolically and classifies the
outcome.  Imported only inside worker processes."""
import ast
import contextlib
import io
import re
import time

_CALL_RE1 = re.compile(r'when calling \w+\((.*)\) \(which returns', re.S)
_CALL_RE2 = re.compile(r'when calling \w+\((.*)\)\s*$', re.S)


def parse_args(message):
    """extract the literal argument list of a CrossHair counterexample message"""
    m = _CALL_RE1.search(message) or _CALL_RE2.search(message)
    if not m:
        return None
    txt = m.group(1)
    try:
        node = ast.parse('f(%s)' % txt, mode='eval').body
        args = [ast.literal_eval(a) for a in node.args]
        kwargs = {k.arg: ast.literal_eval(k.value) for k in node.keywords}
        return args, kwargs
    except Exception:
        return None


def run(fn, budget, path_timeout=None):
    """Symbolically execute ``fn`` (PEP316 contract in its docstring).

    Returns dict(status, message, args, kwargs, paths, solver_queries, solver_s, wall_s)
    status: CONFIRMED | POST_FAIL | EXEC_ERR | CANNOT_CONFIRM | PRE_UNSAT | NONE | other
    """
    from vp import chfix
    chfix.apply()
    import z3
    from crosshair import statespace
    from crosshair.core_and_libs import analyze_function, run_checkables
    from crosshair.options import AnalysisOptionSet, AnalysisKind, DEFAULT_OPTIONS

    stats = {'paths': 0, 'q': 0, 's': 0.0, 'nondet': 0}
    if not getattr(statespace.StateSpace, '_vp_counted', False):
        orig_init = statespace.StateSpace.__init__

        def counted_init(self, *a, **k):
            _STATS['paths'] += 1
            return orig_init(self, *a, **k)
        statespace.StateSpace.__init__ = counted_init
        statespace.StateSpace._vp_counted = True
        orig_check = z3.Solver.check

        def counted_check(self, *a, **k):
            t = time.perf_counter()
            try:
                return orig_check(self, *a, **k)
            finally:
                _STATS['q'] += 1
                _STATS['s'] += time.perf_counter() - t
        z3.Solver.check = counted_check
        orig_nd = statespace.NotDeterministic.__init__

        def nd_init(self, *a, **k):
            _STATS['nondet'] += 1
            return orig_nd(self, *a, **k)
        statespace.NotDeterministic.__init__ = nd_init
    _STATS.clear()
    _STATS.update(stats)

    kw = dict(per_condition_timeout=float(budget), report_all=True,
              analysis_kind=[AnalysisKind.PEP316])
    if path_timeout:
        kw['per_path_timeout'] = float(path_timeout)
    opts = DEFAULT_OPTIONS.overlay(AnalysisOptionSet(**kw))
    t0 = time.time()
    with contextlib.redirect_stdout(io.StringIO()):
        msgs = list(run_checkables(analyze_function(fn, opts)))
    wall = time.time() - t0
    out = dict(paths=_STATS['paths'], solver_queries=_STATS['q'],
               solver_s=round(_STATS['s'], 3), wall_s=round(wall, 2),
               nondeterministic=_STATS['nondet'])
    if not msgs:
        out.update(status='NONE', message='no verdict from engine')
        return out
    # a failure message takes precedence over anything else
    order = {'POST_FAIL': 0, 'EXEC_ERR': 0, 'POST_ERR': 0, 'PRE_UNSAT': 1, 'CANNOT_CONFIRM': 2, 'CONFIRMED': 3}
    msgs.sort(key=lambda m: order.get(m.state.name, 1))
    m = msgs[0]
    out.update(status=m.state.name, message=m.message)
    if m.state.name in ('POST_FAIL', 'EXEC_ERR', 'POST_ERR'):
        pa = parse_args(m.message)
        if pa is not None:
            out['args'], out['kwargs'] = pa
    return out


_STATS = {}
