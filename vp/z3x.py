"""z3x: execution of the real closures / function source on z3 terms, explicit
solver queries with accounting, SMT-LIB dump and cvc5 cross-check."""
import contextlib
import inspect
import os
import subprocess
import sys
import tempfile
import textwrap
import time

import z3


class Queries(object):
    """collects solver queries of one obligation"""

    def __init__(self, cross_check=False):
        self.n = 0
        self.solver_s = 0.0
        self.log = []
        self.cross = cross_check
        self.disagree = []

    def check(self, name, assertions, timeout_s=120, logic=None):
        """returns 'unsat' | 'sat' | 'unknown', model"""
        s = z3.Solver()
        s.set('timeout', int(timeout_s * 1000))
        for a in assertions:
            s.add(a)
        t = time.time()
        r = s.check()
        dt = time.time() - t
        self.n += 1
        self.solver_s += dt
        res = str(r)
        model = s.model() if res == 'sat' else None
        entry = dict(query=name, result=res, solver='z3 ' + z3.get_version_string(), s=round(dt, 3))
        if self.cross and res != 'unknown':
            other = cvc5_check(s.to_smt2(), timeout_s, logic)
            entry['cvc5'] = other
            if other in ('sat', 'unsat') and other != res:
                self.disagree.append(name)
        self.log.append(entry)
        return res, model


def cvc5_check(smt2, timeout_s=120, logic=None):
    """cross-check one query with the cvc5 Python API (1.4) through its SMT-LIB parser; 'error: ...' / 'unknown' are inconclusive"""
    try:
        import cvc5
    except Exception as e:  # noqa
        return 'error: cvc5 not importable (%s)' % e
    text = smt2
    if '(set-logic' not in text:
        text = '(set-logic %s)\n' % (logic or 'ALL') + text
    try:
        tm = cvc5.TermManager() if hasattr(cvc5, 'TermManager') else None
        slv = cvc5.Solver(tm) if tm is not None else cvc5.Solver()
        slv.setOption('tlimit-per', str(int(timeout_s * 1000)))
        slv.setOption('fp-exp', 'true')
        parser = cvc5.InputParser(slv)
        parser.setStringInput(cvc5.InputLanguage.SMT_LIB_2_6, text, 'q')
        sm = parser.getSymbolManager()
        result = None
        while True:
            cmd = parser.nextCommand()
            if cmd.isNull():
                break
            out = cmd.invoke(slv, sm)
            o = str(out).strip()
            if o in ('sat', 'unsat', 'unknown'):
                result = o
            elif '(error' in o:
                return 'error: ' + o[:200]
        return result or 'unknown'
    except Exception as e:  # noqa
        return 'error: %s' % (str(e)[:200])


# ---------------------------------------------------------------- term execution support

class FloatSlots(list):
    """list-backed stand-in for array('d') in MemoryStore: identity on doubles, passes z3 terms through"""

    def _c(self, v):
        return float(v) if isinstance(v, (int, float)) else v

    def append(self, v):
        list.append(self, self._c(v))

    def __setitem__(self, i, v):
        list.__setitem__(self, i, self._c(v))


@contextlib.contextmanager
def float_slots():
    import rxsci.state.memory_store as MS
    orig = MS.array
    MS.array = lambda code, *a: FloatSlots() if code == 'd' else orig(code, *a)
    try:
        yield
    finally:
        MS.array = orig


def validate_float_slots():
    """differential run against the real array('d')"""
    from array import array
    import random
    r = random.Random(3)
    vals = [0.0, -0.0, 1.5, float('inf'), float('-inf'), 1e308, 5e-324, 3, -7] + [r.uniform(-1e6, 1e6) for _ in range(50)]
    a, b = array('d'), FloatSlots()
    for v in vals:
        a.append(v)
        b.append(v)
    for i, v in enumerate(reversed(vals)):
        a[i] = v
        b[i] = v
    return all((x == y and type(x) is type(y) and str(x) == str(y)) for x, y in zip(a, b)) and len(a) == len(b)


class SqrtUF(object):
    """math replacement: sqrt is an uninterpreted function over the reals (only congruence is used)"""
    F = z3.Function('sqrt', z3.RealSort(), z3.RealSort())

    @classmethod
    def sqrt(cls, x):
        if isinstance(x, z3.ExprRef):
            return cls.F(x)
        return cls.F(z3.RealVal(x))


@contextlib.contextmanager
def sqrt_uf():
    mods = [sys.modules['rxsci.math.stddev'], sys.modules['rxsci.math.formal.stddev']]
    saved = [m.math for m in mods]
    for m in mods:
        m.math = SqrtUF
    try:
        yield
    finally:
        for m, s in zip(mods, saved):
            m.math = s


def capture_scan(factory, *a, **kw):
    """run an operator factory while recording the accumulator / seed it hands to rs.ops.scan"""
    import rxsci as rs
    got = []
    orig = rs.ops.scan

    def fake(acc, seed, reduce=False, terminator=None):
        got.append(dict(acc=acc, seed=seed, reduce=reduce, terminator=terminator))
        return orig(acc, seed, reduce=reduce, terminator=terminator)
    rs.ops.scan = fake
    try:
        factory(*a, **kw)
    finally:
        rs.ops.scan = orig
    return got


def reexec(fn, shims, extra_globals=None):
    """re-execute the *current source* of a module-level function with names replaced by term-building shims"""
    src = textwrap.dedent(inspect.getsource(fn))
    ns = dict(fn.__globals__)
    if extra_globals:
        ns.update(extra_globals)
    ns.update(shims)
    exec(compile(src, '<%s@repo>' % fn.__name__, 'exec'), ns)
    return ns[fn.__name__], src


def terms_equal(a, b, q, name):
    """syntactic identity first, solver otherwise; returns 'same' | 'unsat' | 'sat' | 'unknown'"""
    if isinstance(a, z3.ExprRef) and isinstance(b, z3.ExprRef):
        if a.eq(b):
            return 'same', None
        r, m = q.check(name, [a != b], timeout_s=60)
        return r, m
    if isinstance(a, z3.ExprRef) or isinstance(b, z3.ExprRef):
        a2 = a if isinstance(a, z3.ExprRef) else z3.RealVal(a)
        b2 = b if isinstance(b, z3.ExprRef) else z3.RealVal(b)
        r, m = q.check(name, [a2 != b2], timeout_s=60)
        return r, m
    return ('same' if a == b else 'sat'), None


# ---------------------------------------------------------------- path forking for data-dependent branches

def explore(fn, q, max_paths=64, feas_timeout=20):
    """Run ``fn`` (real code over z3 terms) once per feasible combination of the data-dependent branches it takes.

    z3's BoolRef.__bool__ silently answers a structural comparison for ``a == b`` (False for different terms) and raises for
    anything else; here every non-constant condition becomes a decision: if the path condition entails it (or its negation) that value
    is taken, otherwise both sides are explored by re-execution.  Returns (paths, complete) with paths = [(path_condition, result)]."""
    results = []
    work = [[]]
    orig = z3.BoolRef.__bool__
    while work and len(results) < max_paths:
        prefix = work.pop()
        trace = []

        def decide(cond):
            if z3.is_true(cond):
                return True
            if z3.is_false(cond):
                return False
            if z3.is_eq(cond) and cond.num_args() == 2 and cond.arg(0).eq(cond.arg(1)):
                return True
            if z3.is_distinct(cond) and cond.num_args() == 2 and cond.arg(0).eq(cond.arg(1)):
                return False
            i = len(trace)
            if i < len(prefix):
                v = prefix[i]
            else:
                pc = [c if d else z3.Not(c) for c, d in trace]
                rt, _ = q.check('feasibility', pc + [cond], timeout_s=feas_timeout)
                rf, _ = q.check('feasibility', pc + [z3.Not(cond)], timeout_s=feas_timeout)
                can_t, can_f = rt != 'unsat', rf != 'unsat'
                if can_t and can_f:
                    v = True
                    work.append([d for _, d in trace] + [False])
                elif can_t:
                    v = True
                else:
                    v = False
            trace.append((cond, v))
            return v
        z3.BoolRef.__bool__ = lambda self: decide(self)
        try:
            res = fn()
        finally:
            z3.BoolRef.__bool__ = orig
        results.append(([c if d else z3.Not(c) for c, d in trace], res))
    return results, not work


def equal_under(pc, a, b, q, name):
    """a == b for all values satisfying the path condition: 'same' | 'unsat' | 'sat' | 'unknown'"""
    if isinstance(a, z3.ExprRef) and isinstance(b, z3.ExprRef) and a.eq(b):
        return 'same', None
    if not isinstance(a, z3.ExprRef) and not isinstance(b, z3.ExprRef):
        return ('same' if a == b else 'sat'), None
    a2 = a if isinstance(a, z3.ExprRef) else z3.RealVal(a)
    b2 = b if isinstance(b, z3.ExprRef) else z3.RealVal(b)
    return q.check(name, list(pc) + [a2 != b2], timeout_s=60)
