"""Repairs to CrossHair 0.0.110 models, applied in every symbolic worker.

1. ``SequenceConcatenation.__eq__`` compares a list tail with a tuple-like view
   and answers False for sequences that are element-wise equal; this yields
   non-reproducing counterexamples on string code (``(s + 'a')[:-1] == s``).
   Re-bound to the element-wise ``SeqBase.__eq__``.

The lemma self-tests in :mod:`vp.props.ENGINE` must confirm (and their
negations be refuted) before any verdict of a run is believed.
"""
from crosshair import simplestructs

_applied = False


def apply():
    global _applied
    if _applied:
        return
    simplestructs.SequenceConcatenation.__eq__ = simplestructs.SeqBase.__eq__
    _applied = True
