"""Repairs to CrossHair 0.0.110 models, applied in every symbolic worker.

1. ``SequenceConcatenation.__eq__`` compares a list tail with a tuple-like view
   and answers False for sequences that are element-wise equal; this yields
   non-reproducing counterexamples on string code (``(s + 'a')[:-1] == s``).
   Re-bound to the element-wise ``SeqBase.__eq__``.

2. ``sequence_evaluation`` (used by ``ShellMutableSequence.extend`` and friends)
   passes every *hashable* argument through as if it were an immutable
   sequence; generators and other iterators are hashable, so
   ``lst.extend(<generator>)`` on a wrapped list stores the generator itself and
   later fails with "object of type 'generator' has no len()" - an exception the
   concrete run never raises (seen with a MemoryStore variant growing its tables
   with ``extend``).  Iterators are now materialised.

The lemma self-tests in :mod:`vp.props.ENGINE` must confirm (and their
negations be refuted) before any verdict of a run is believed.
"""
from crosshair import simplestructs

_applied = False


def apply():
    global _applied
    if _applied:
        return
    simplestructs.SequenceConcatenation.__eq__ = simplestructs.SeqBase.__eq__
    import collections.abc
    from crosshair.tracers import NoTracing
    orig = simplestructs.sequence_evaluation

    def sequence_evaluation(seq):
        with NoTracing():
            lazy = isinstance(seq, collections.abc.Iterator) or not isinstance(seq, collections.abc.Sized)
        if lazy:
            return list(seq)
        return orig(seq)
    simplestructs.sequence_evaluation = sequence_evaluation
    _applied = True
