"""Obligation scheduler, worker pool, verdict classification, evidence writer.

Verdicts: CONFIRMED (solver covered every value within the bound), REFUTED
(counterexample reproduced concretely on the real code), INCONCLUSIVE (budget,
unknown, spurious counterexample, vacuous) and ERROR (harness bug: exit 2).
"""
import hashlib
import importlib
import json
import multiprocessing as mp
import os
import subprocess
import sys
import time
import traceback

ROOT = os.path.dirname(os.path.dirname(os.path.abspath(__file__)))
PY = sys.executable


class Ob(object):
    """One obligation: a harness family instantiated with concrete shape
    parameters; everything else is symbolic inside the harness."""

    def __init__(self, prop, family, params=None, budget=60, path_timeout=None,
                 expect='hold', kind='symx', bound=None, group=None):
        self.prop = prop
        self.family = family
        self.params = params or {}
        self.budget = budget
        self.path_timeout = path_timeout
        self.expect = expect      # 'hold' | 'refute' (vacuity / sensitivity twin)
        self.kind = kind          # 'symx' | 'direct'
        self.bound = bound or {}
        self.group = group or family

    @property
    def name(self):
        ps = ','.join('%s=%s' % (k, _short(v)) for k, v in sorted(self.params.items()))
        return '%s[%s]' % (self.family, ps)

    def spec(self):
        return dict(prop=self.prop, family=self.family, params=self.params,
                    budget=self.budget, path_timeout=self.path_timeout,
                    expect=self.expect, kind=self.kind, bound=self.bound, group=self.group)


def _short(v):
    s = json.dumps(v, sort_keys=True, default=str) if not isinstance(v, str) else v
    return s if len(s) <= 60 else s[:57] + '...'


def load_prop(prop):
    return importlib.import_module('vp.props.%s' % prop)


def build(spec):
    mod = load_prop(spec['prop'])
    fam = mod.FAMILIES[spec['family']]
    from vp import harness
    params = dict(spec['params'])
    harness.TWIN[0] = params.pop('_twin', None)
    try:
        return fam(params)
    finally:
        harness.TWIN[0] = None


# ---------------------------------------------------------------- replay

def replay_concrete(spec, args, kwargs=None, timeout=120):
    """Run the harness on concrete arguments in a fresh plain interpreter (no
    CrossHair import).  Returns dict(reproduced, detail, exception)."""
    payload = json.dumps(dict(spec=spec, args=args, kwargs=kwargs or {}))
    env = dict(os.environ, PYTHONPATH='%s:%s' % (ROOT, os.environ.get('VP_REPO', '/repo')), PYTHONDONTWRITEBYTECODE='1')
    try:
        p = subprocess.run([PY, '-m', 'vp.replay', '--json'], input=payload, capture_output=True,
                           text=True, timeout=timeout, cwd=ROOT, env=env)
    except subprocess.TimeoutExpired:
        return dict(reproduced=False, error='replay timeout')
    for line in reversed(p.stdout.splitlines()):
        if line.startswith('REPLAY-RESULT '):
            return json.loads(line[len('REPLAY-RESULT '):])
    return dict(reproduced=False, error='replay crashed: ' + (p.stderr or p.stdout)[-500:])


def _witness_inputs(fn):
    """a few simple concrete argument lists for a harness: all zeros / empty, and small distinct values"""
    import inspect
    params = list(inspect.signature(fn).parameters.values())
    out = []
    for variant in (0, 1, 2, 3):
        args = []
        for j, prm in enumerate(params):
            t = prm.annotation
            ts = getattr(t, '__name__', str(t))
            if t is int or ts == 'int':
                args.append([0, j % 3 + 1, 2 - j % 3, 2 ** 35 + 3 * j + 1][variant])        # the last variant: magnitudes beyond 32 bits (typed state narrower than declared shows up concretely)
            elif t is bool or ts == 'bool':
                args.append([False, True, j % 2 == 0, j % 3 == 0][variant])
            elif t is str or ts == 'str':
                args.append(['', 'a', 'b,', 'é\u2028'][variant])
            elif 'Optional' in str(t):
                args.append([None, j, 0, 2 ** 35 + j][variant])
            else:
                args.append(0)
        out.append(args)
    return out


def _witness_failure(fn):
    """run the harness concretely (no tracing) on witness inputs satisfying its precondition; return the first argument list on which it does not return True"""
    import contextlib
    import inspect
    import io
    import re
    doc = fn.__doc__ or ''
    pres = re.findall(r'^\s*pre:\s*(.+)$', doc, re.M)
    names = list(inspect.signature(fn).parameters)
    for args in _witness_inputs(fn):
        env = dict(zip(names, args))
        try:
            if not all(eval(pr, {'len': len}, dict(env)) for pr in pres):
                continue
        except Exception:
            continue
        from vp import harness
        try:
            harness.CONCRETE[0] = True
            del harness.UNMODELLED[:]
            with contextlib.redirect_stdout(io.StringIO()):
                v = fn(*args)
        except Exception as e:
            if type(e).__name__ == 'Inconclusive' or harness.UNMODELLED:
                continue
            return args
        finally:
            harness.CONCRETE[0] = False
        if v is not True and not harness.UNMODELLED:
            return args
    return None


# ---------------------------------------------------------------- worker

def _work(spec, conn):
    t0 = time.time()
    res = dict(spec=spec)
    try:
        sys.setrecursionlimit(10000)
        h = build(spec)
        if spec['kind'] == 'direct':
            try:
                r = h()
            except Exception as e:
                # a z3x obligation re-executes the current source on solver terms; source that the term classes cannot execute is outside the encoding's reach:
                # the honest answer is "cannot judge", never a violation and not a broken check
                r = dict(verdict='INCONCLUSIVE', reason='encoding failure (the current source is not executable on terms): %s: %s' % (type(e).__name__, str(e)[:200]),
                         trace=traceback.format_exc()[-800:])
            res.update(r)
        else:
            from vp import symx
            r = symx.run(h, spec['budget'], spec.get('path_timeout'))
            res.update(paths=r['paths'], solver_queries=r['solver_queries'], solver_s=r['solver_s'],
                       engine_status=r['status'], message=(r.get('message') or '')[:600])
            st = r['status']
            if r.get('nondeterministic'):
                res.update(verdict='INCONCLUSIVE', reason='NotDeterministic raised by engine')
            elif st == 'CONFIRMED':
                res.update(verdict='CONFIRMED')
                # guard against engine model gaps (e.g. identity of ints): the harness is also run concretely, untraced, on witness inputs that satisfy its
                # precondition; a concrete failure is a counterexample in its own right
                w = None if spec['expect'] != 'hold' else _witness_failure(h)
                if w is not None:
                    rp = replay_concrete(spec, w, {})
                    if rp.get('reproduced'):
                        res.update(verdict='REFUTED', cex=dict(args=w, kwargs={}), detail=rp.get('detail'), exception=rp.get('exception'),
                                   note='found by the concrete witness run (symbolic and concrete execution disagree: engine model gap)')
            elif st in ('POST_FAIL', 'EXEC_ERR', 'POST_ERR'):
                if 'args' not in r:
                    res.update(verdict='INCONCLUSIVE', reason='counterexample not parseable: ' + r['message'][:200])
                else:
                    rp = replay_concrete(spec, r['args'], r['kwargs'])
                    res['cex'] = dict(args=r['args'], kwargs=r['kwargs'])
                    if rp.get('inconclusive'):
                        res.update(verdict='INCONCLUSIVE', reason='harness cannot judge: ' + rp['inconclusive'])
                    elif rp.get('reproduced'):
                        res.update(verdict='REFUTED', detail=rp.get('detail'), exception=rp.get('exception'))
                    elif spec['params'].get('_twin') == 'reach' and rp.get('failed_concretely'):
                        # the vacuity twin asked for an input on which the harness returns True; the engine produced one, but run concretely on the real code
                        # the harness FAILS on it: that input is a concrete counterexample of the property obligation itself (and an engine model gap)
                        plain = dict(spec, params={k: v for k, v in spec['params'].items() if k != '_twin'}, expect='hold')
                        res.update(spec=plain, verdict='REFUTED', detail=rp.get('detail'), exception=rp.get('exception'),
                                   note='counterexample obtained from the vacuity twin: symbolic and concrete execution disagree')
                    else:
                        res.update(verdict='INCONCLUSIVE',
                                   reason='spurious: counterexample does not reproduce concretely (%s)' % (rp.get('error') or 'harness returned True'))
            elif st == 'PRE_UNSAT':
                res.update(verdict='INCONCLUSIVE', reason='precondition unsatisfiable or every path aborted')
            else:
                res.update(verdict='INCONCLUSIVE', reason='%s: %s' % (st, (r.get('message') or '')[:200]))
    except BaseException as e:  # noqa
        res.update(verdict='ERROR', reason='%s: %s' % (type(e).__name__, e), trace=traceback.format_exc()[-1500:])
    res['wall_s'] = round(time.time() - t0, 2)
    try:
        conn.send(res)
    finally:
        conn.close()


def run_pool(obs, jobs=None, progress=None):
    """Run obligations in separate processes (one each), at most ``jobs`` at a time."""
    jobs = jobs or int(os.environ.get('VERIF_JOBS', '0')) or min(16, os.cpu_count() or 4)
    ctx = mp.get_context('fork')
    pending = sorted(obs, key=lambda o: -o.budget)
    running = []
    results = []
    while pending or running:
        while pending and len(running) < jobs:
            ob = pending.pop(0)
            pc, cc = ctx.Pipe(duplex=False)
            p = ctx.Process(target=_work, args=(ob.spec(), cc), daemon=True)
            p.start()
            cc.close()
            running.append((ob, p, pc, time.time()))
        time.sleep(0.02)
        still = []
        for ob, p, pc, t0 in running:
            done = False
            if pc.poll():
                try:
                    r = pc.recv()
                except EOFError:
                    r = dict(spec=ob.spec(), verdict='ERROR', reason='worker died')
                done = True
            elif not p.is_alive():
                r = dict(spec=ob.spec(), verdict='ERROR', reason='worker died (exit %s)' % p.exitcode)
                done = True
            elif time.time() - t0 > ob.budget * 2 + 90:
                p.terminate()
                r = dict(spec=ob.spec(), verdict='INCONCLUSIVE', reason='hard timeout', wall_s=round(time.time() - t0, 1))
                done = True
            if done:
                p.join(timeout=5)
                if p.is_alive():
                    p.kill()
                pc.close()
                r['name'] = ob.name
                results.append(r)
                if progress:
                    progress(r)
            else:
                still.append((ob, p, pc, t0))
        running = still
    return results


# ---------------------------------------------------------------- known findings

def load_known():
    path = os.path.join(ROOT, 'known_findings.json')
    if not os.path.exists(path):
        return dict(known=[], fixed=[])
    with open(path) as f:
        return json.load(f)


def match_known(known, res):
    """A refuted obligation matches a known finding when property and family
    agree, every listed shape parameter agrees, and (if the entry pins one) the
    counterexample arguments are the listed ones."""
    sp = res['spec']
    for k in known.get('known', []):
        if k.get('property') != sp['prop']:
            continue
        if k.get('family') and k['family'] != sp['family']:
            continue
        ok = all(sp['params'].get(a) == b for a, b in (k.get('params') or {}).items())
        if not ok:
            continue
        if k.get('args') is not None and k['args'] != (res.get('cex') or {}).get('args'):
            continue
        return k
    return None


def write_replay(res):
    sp = res['spec']
    body = dict(property=sp['prop'], spec=sp, cex=res.get('cex'), detail=res.get('detail'),
                exception=res.get('exception'), obligation=res.get('name'))
    h = hashlib.sha1(json.dumps([sp['family'], sp['params'], res.get('cex')], sort_keys=True, default=str).encode()).hexdigest()[:10]
    d = os.path.join(ROOT, 'replays')
    os.makedirs(d, exist_ok=True)
    path = os.path.join(d, '%s-%s.json' % (sp['prop'], h))
    with open(path, 'w') as f:
        json.dump(body, f, indent=1, default=str)
    return path
