"""Harness construction helpers (no CrossHair import here: replay runs this too).

A harness is a function with scalar, literal-able parameters and a PEP-316
contract ``post: _ == True``.  The body is ordinary Python written in the
property module; only the thin typed wrapper is generated, because CrossHair
needs a fixed signature per obligation (symbolic-length lists cost ~7x).
"""
import linecache
import sys
import types

DETAIL = {}
_count = [0]
CONCRETE = [False]   # set by the concrete replay / witness run: the arguments are plain Python values (a harness may then confirm a failure through the public API)
TWIN = [None]   # 'reach': vacuity twin, the contract is negated so that a path reaching `return True` is a counterexample


class Inconclusive(Exception):
    """raised by a harness that cannot judge (e.g. the state representation it presets no longer matches the code): never a violation"""


UNMODELLED = []      # what the code under test asked of a contract stub that the stub does not model (in this process)


def unmodelled(what):
    """called by a contract stub when the code under test uses a part of the stubbed library's API that the stub does not model: the obligation cannot be
    judged on this path.  The request is recorded (the code under test may swallow the exception) and the replay / witness run turns any outcome of a run
    in which this happened into INCONCLUSIVE - never into a violation."""
    UNMODELLED.append(what)
    raise Inconclusive('contract stub: %s is not modelled' % what)


def unmodelled_attr(prefix, name):
    """for the __getattr__ of a stub: private / dunder probes (copy, pickle, hasattr) get the ordinary AttributeError"""
    if name.startswith('_'):
        raise AttributeError(name)
    unmodelled(prefix + name)


class stubbed(object):
    """context manager installing contract stubs over names of modules of the code under test: entries (module name, attribute, fake[, optional]).
    If the module no longer refers to the library by that name the stub cannot be installed: the obligation is INCONCLUSIVE (or, for an optional entry -
    a name the module may simply have stopped using - runs without that stub).  Never a violation."""

    def __init__(self, entries):
        self.entries = entries
        self.saved = []

    def __enter__(self):
        for e in self.entries:
            modname, attr, fake = e[0], e[1], e[2]
            optional = len(e) > 3 and e[3]
            mod = sys.modules.get(modname)
            if mod is None or not hasattr(mod, attr):
                if optional and mod is not None:
                    continue
                self.__exit__()
                raise Inconclusive('cannot install the contract stub: %s has no name %r any more' % (modname, attr))
            self.saved.append((mod, attr, getattr(mod, attr)))
            setattr(mod, attr, fake)
        return self

    def __exit__(self, *a):
        for mod, attr, val in reversed(self.saved):
            setattr(mod, attr, val)
        self.saved = []
        return False


def fail(**kw):
    """record what was observed / expected and return False (the harness verdict)"""
    DETAIL.clear()
    for k, v in kw.items():
        DETAIL[k] = v
    return False


def mk(name, sig, pre, body, env=None, post='_ == True', raises=None):
    """Build ``def name(<sig>) -> bool`` whose body is ``return body([args...])``.

    sig:  list of (argname, type-source) e.g. [('v0', 'int'), ('s', 'str')]
    pre:  list of precondition expressions over the argument names
    body: callable taking the list of argument values, returns True or falsy
    """
    _count[0] += 1
    if TWIN[0] == 'reach':
        post = '_ != True'
    params = ', '.join('%s: %s' % (a, t) for a, t in sig)
    doc = ''.join('    pre: %s\n' % p for p in pre)
    if raises:
        doc += '    raises: %s\n' % raises
    doc += '    post: %s\n' % post
    src = (
        'from typing import List, Tuple, Optional, Dict\n'
        'def %s(%s) -> bool:\n    """\n%s    """\n    return _body([%s])\n'
        % (name, params, doc, ', '.join(a for a, _ in sig))
    )
    fname = '<vp-harness-%s-%d>' % (name, _count[0])
    linecache.cache[fname] = (len(src), None, src.splitlines(True), fname)
    mod = types.ModuleType('vp_gen_%s_%d' % (name, _count[0]))
    mod.__file__ = fname
    sys.modules[mod.__name__] = mod
    g = mod.__dict__
    if env:
        g.update(env)
    g['_body'] = body
    exec(compile(src, fname, 'exec'), g)
    fn = g[name]
    fn.vp_source = src
    return fn


def ints(prefix, n):
    return [('%s%d' % (prefix, i), 'int') for i in range(n)]


def rng(names, lo, hi):
    """preconditions lo <= x <= hi for every name"""
    return ['%d <= %s <= %d' % (lo, a, hi) for a in names]


def conc(k, g):
    """Concretise a symbolic group choice by a comparison cascade so that the
    solver (not a hash) picks the group: returns 0..g-1."""
    for j in range(g - 1):
        if k <= j:
            return j
    return g - 1
