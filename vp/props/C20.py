"""C20 parquet dump/load round-trips rows for every row count and batch size."""
import sys

from rx.scheduler import ImmediateScheduler
import rxsci as rs
import rxsci.container.parquet as P
from vp import drivers as D
from vp.engine import Ob
from vp.harness import mk, fail
from vp import harness
from vp.stubs import fakearrow as FA

PROP = 'C20'
META = dict(
    explanation='The real rxsci code of parquet.dump_to_file (batch -> to_record / create_record -> _dump_parquet) and load_from_file runs over FakeArrow, a contract stub of the pyarrow calls it makes '
                '(pa.array copies, RecordBatch.from_arrays holds columns, ParquetWriter.write appends the rows of the batch, ParquetFile.iter_batches yields the rows in order in chunks). '
                'Row count N concrete per obligation, dump batch size and load batch size solver-chosen in 1..N+1, row values symbolic (int column, str column). Asserted: the file contains exactly the source rows, once each, in order - also when the same dump pipeline is subscribed a second time; '
                'the writer is closed - and, when the file is given as a path with open_obj, the file itself is closed - by the time completion is signalled; load_from_file returns the rows equal to the source, for every load batch size. The stub is validated at the start of every run by pushing identical scenarios through the real pyarrow '
                '(incl. (rows, batch) = (2048, 1024), (5000, 999), snappy/zstd) and comparing the rows left in the file and the rows loaded.',
    bounds=dict(quick='N <= 8 rows, dump batch 1..N+1, load batch 1..N+1, 2 columns (int, str of length 1)', thorough='N <= 12 rows'),
    outside='pyarrow itself, compression codecs, nested struct / list columns, row_group_size, encryption (forwarded verbatim; the stub validator exercises the real library on a grid)',
    assumptions=['pyarrow behaves as vp/stubs/fakearrow.py for the calls rxsci makes (validated against the real pyarrow at run start)'],
    stubs=['FakePA / FakePQ replace the pa / pq names inside rxsci.container.parquet'],
)


def _sel(x, n):
    for j in range(n - 1):
        if x <= j:
            return j
    return n - 1


class Env(object):
    def __enter__(self):
        self.ctx = harness.stubbed([('rxsci.container.parquet', 'pa', FA.FakePA), ('rxsci.container.parquet', 'pq', FA.FakePQ)])
        self.ctx.__enter__()
        return self

    def __exit__(self, *a):
        self.ctx.__exit__()
        return False


def roundtrip(p):
    n = p['n']
    sig = [('bs', 'int'), ('lb', 'int')] + [('v%d' % i, 'int') for i in range(n)] + [('s%d' % i, 'str') for i in range(n)]
    pre = ['0 <= bs <= %d' % n, '0 <= lb <= %d' % n] + ['len(s%d) == 1' % i for i in range(n)]

    def body(a):
        bs = 1 + _sel(a[0], n + 1)
        lb = 1 + _sel(a[1], n + 1)
        rows = [dict(a=a[2 + i], b=a[2 + n + i]) for i in range(n)]
        del FA.UNMODELLED[:]
        with Env():
            # the same source.pipe(dump_to_file(...)) observable is subscribed twice (re-export / retry): each run must write exactly the rows
            holder = FA.FFile()
            bypath = p.get('path', False)
            opened = []

            def wopen(name, mode='rb', **kw):
                opened.append((name, mode))
                holder.closed = False
                return holder
            target, kw = ('/var/tmp/vp-c20-x.parquet', dict(open_obj=wopen)) if bypath else (holder, {})
            obs_ = D.src(rows).pipe(P.dump_to_file(target, FA.FSchema(['a', 'b']), batch_size=bs, **kw))
            for sub in (1, 2):
                holder.rows = []
                holder.writes = []
                holder.writer_closed = False
                done = []
                # at the moment completion is signalled the file must be complete and (when opened by path) closed
                obs_.subscribe(on_error=lambda e: done.append(('ERR', repr(e))), on_completed=lambda: done.append(('C', holder.writer_closed, holder.closed, len(holder.rows))))
                written = [dict(a=r[0], b=r[1]) for r in holder.rows]
                if len(done) != 1 or done[0][0] != 'C' or written != rows or not holder.writer_closed:
                    return fail(stage='dump_to_file', subscription=sub, rows=rows, dump_batch=bs, observed=written, writes=holder.writes, done=done, writer_closed=holder.writer_closed)
                if not done[0][1] or done[0][3] != len(rows) or (bypath and not done[0][2]):
                    return fail(stage='dump_to_file', problem='completion signalled before the file was complete / closed', done=done, by_path=bypath)
            if bypath and opened != [('/var/tmp/vp-c20-x.parquet', 'wb')] * 2:
                return fail(stage='dump_to_file', problem='open_obj protocol', opened=opened)
            f = holder
            if FA.UNMODELLED:
                from vp.harness import Inconclusive
                raise Inconclusive('the pyarrow stub does not model %s' % sorted(set(FA.UNMODELLED)))
            # how the rows are grouped into record batches is not part of the statement (only what the file holds): f.writes is kept in failure details only
            got = []
            end = []
            src_, kw2 = ('/var/tmp/vp-c20-x.parquet', dict(open_obj=lambda name, mode='rb', **k: f)) if bypath else (f, {})
            P.load_from_file(src_, batch_size=lb, **kw2).subscribe(on_next=got.append, on_error=lambda e: end.append(('ERR', repr(e))), on_completed=lambda: end.append('C'), scheduler=ImmediateScheduler())
            if FA.UNMODELLED:
                from vp.harness import Inconclusive
                raise Inconclusive('the pyarrow stub does not model %s' % sorted(set(FA.UNMODELLED)))
            if got != rows or end != ['C']:
                return fail(stage='load_from_file', rows=rows, load_batch=lb, observed=got, end=end)
        return True
    return mk('parquet_roundtrip', sig, pre, body)


_SPECIALS = [0.0, -0.0, 1.5, float('inf'), None, float('nan'), 5e-324, -2.25]


def _same(u, v):
    import math
    if isinstance(u, float) and isinstance(v, float):
        if u != u or v != v:
            return u != u and v != v
        return u == v and math.copysign(1.0, u) == math.copysign(1.0, v)
    if isinstance(u, dict) and isinstance(v, dict):
        return list(u.keys()) == list(v.keys()) and all(_same(u[k], v[k]) for k in u)
    return type(u) is type(v) and u == v


def special_values(p):
    """a float column over the corners of the float domain (signed zeros, infinity, subnormal, NaN) next to genuine nulls (None): the file holds, and the load
    returns, the same cells - a NaN stays a float NaN, a null stays a null, the sign of zero is kept; the int column and both batch sizes are symbolic"""
    n = p['n']
    sig = [('bs', 'int'), ('lb', 'int')] + [('v%d' % i, 'int') for i in range(n)]
    pre = ['0 <= bs <= %d' % n, '0 <= lb <= %d' % n]

    def body(a):
        bs = 1 + _sel(a[0], n + 1)
        lb = 1 + _sel(a[1], n + 1)
        rows = [dict(a=a[2 + i], x=_SPECIALS[(i + p.get('shift', 0)) % len(_SPECIALS)]) for i in range(n)]
        del FA.UNMODELLED[:]
        with Env():
            f = FA.FFile()
            done = []
            D.src(rows).pipe(P.dump_to_file(f, FA.FSchema(['a', 'x']), batch_size=bs)).subscribe(on_error=lambda e: done.append(('ERR', repr(e))), on_completed=lambda: done.append('C'))
            written = [dict(a=r[0], x=r[1]) for r in f.rows]
            if FA.UNMODELLED:
                from vp.harness import Inconclusive
                raise Inconclusive('the pyarrow stub does not model %s' % sorted(set(FA.UNMODELLED)))
            if done != ['C'] or len(written) != n or not all(_same(u, v) for u, v in zip(written, rows)):
                return fail(stage='dump_to_file', rows=repr(rows), observed=repr(written), done=done)
            got = []
            P.load_from_file(f, batch_size=lb).subscribe(on_next=got.append, on_error=lambda e: got.append(('ERR', repr(e))), scheduler=ImmediateScheduler())
            if len(got) != n or not all(_same(u, v) for u, v in zip(got, rows)):
                return fail(stage='load_from_file', rows=repr(rows), observed=repr(got))
        return True
    return mk('parquet_special_values', sig, pre, body)


def big(p):
    """larger files: row count and both batch sizes concrete (the control flow of dump / load does not depend on the row values, which stay symbolic)"""
    n, bs, lb = p['n'], p['bs'], p['lb']
    sig = [('v%d' % i, 'int') for i in range(n)]

    def body(a):
        rows = [dict(a=a[i], b='r%d' % i) for i in range(n)]
        del FA.UNMODELLED[:]
        with Env():
            holder = FA.FFile()
            done = []
            D.src(rows).pipe(P.dump_to_file(holder, FA.FSchema(['a', 'b']), batch_size=bs)).subscribe(on_error=lambda e: done.append(('ERR', repr(e))), on_completed=lambda: done.append('C'))
            written = [dict(a=r[0], b=r[1]) for r in holder.rows]
            if done != ['C'] or written != rows or not holder.writer_closed:
                return fail(stage='dump_to_file', n=n, dump_batch=bs, observed_rows=len(written), writes=holder.writes, done=done)
            got = []
            P.load_from_file(holder, batch_size=lb).subscribe(on_next=got.append, on_error=lambda e: got.append(('ERR', repr(e))), scheduler=ImmediateScheduler())
            if got != rows:
                return fail(stage='load_from_file', n=n, load_batch=lb, observed_rows=len(got))
        return True
    return mk('parquet_big', sig, [], body)


def stub_valid(p):
    def run():
        r = FA.validate()
        return dict(verdict='CONFIRMED' if r is None else 'INCONCLUSIVE', reason=None if r is None else 'stub invalid: ' + r, paths=0, solver_queries=0, solver_s=0.0)
    return run


FAMILIES = {'special_values': special_values, 'roundtrip': roundtrip, 'big': big, 'stub_valid': stub_valid}


def obligations(tier, seed):
    obs = [Ob(PROP, 'stub_valid', {}, kind='direct', budget=240, group='stub validation')]
    q = tier == 'quick'
    for n in range(0, (8 if q else 12) + 1):
        obs.append(Ob(PROP, 'roundtrip', dict(n=n), budget=240 if q else 1500, bound=dict(rows=n, dump_batch='1..%d' % (n + 1), load_batch='1..%d' % (n + 1))))
        if n <= (4 if q else 7):
            obs.append(Ob(PROP, 'roundtrip', dict(n=n, path=True), budget=240 if q else 1500, bound=dict(rows=n, file='path + open_obj', dump_batch='1..%d' % (n + 1), load_batch='1..%d' % (n + 1))))
    for (n, bs, lb) in ((17, 8, 5), (20, 16, 32), (33, 32, 7), (10, 3, 4), (64, 9, 64), (65, 64, 3), (130, 64, 7), (300, 300, 50), (257, 1024, 1024)) if q else ((17, 8, 5), (20, 16, 32), (33, 32, 7), (10, 3, 4), (64, 9, 64), (65, 64, 3), (129, 128, 10), (200, 7, 33), (256, 256, 255), (130, 64, 7), (300, 300, 50), (257, 1024, 1024), (1025, 1024, 100), (600, 1, 600)):
        obs.append(Ob(PROP, 'big', dict(n=n, bs=bs, lb=lb), budget=240 if q else 900, group='larger files (concrete sizes, symbolic values)', bound=dict(rows=n, dump_batch=bs, load_batch=lb)))
    for n, shift in (((3, 3), (4, 0), (6, 4)) if q else ((3, 3), (4, 0), (6, 4), (8, 0), (5, 1))):
        obs.append(Ob(PROP, 'special_values', dict(n=n, shift=shift), budget=240 if q else 900, group='float corners and nulls', bound=dict(rows=n, float_cells='0.0, -0.0, inf, subnormal, NaN, None', int_cells='symbolic', batch_sizes='symbolic')))
    obs.append(Ob(PROP, 'roundtrip', dict(n=3, _twin='reach'), budget=60, expect='refute'))
    return obs
