"""C08 tee_map equals running each branch independently and joining the results."""
import rx
import rxsci as rs
from vp import catalog as C
from vp import drivers as D
from vp.engine import Ob
from vp.harness import mk, fail, ints

PROP = 'C08'
META = dict(
    explanation='Differential, real code on both sides: every branch pipeline is also run alone on the same N symbolic integers with a timed recorder (its outputs per source event, completion included); '
                'the expected tee_map output is the join of those traces as the statement defines it - merge: every branch output in branch order per source event; zip: a tuple each time every branch has produced '
                'since the last tuple; combine_latest: the tuple of latest values (None before the first) on each branch output. Checked on the root key, per key lifetime under group_by / roll / split '
                '(where slots are reused by successive lifetimes), tee_map nested in tee_map, and on plain observables (source driven by a Subject).',
    bounds=dict(quick='N <= 4 items (|v| <= 2^40), 2-3 branches from {identity, filter even, filter odd, scan, count(reduce), last, take(1), batch(2), roll(2,1,[sum])}, 3 joins',
                thorough='N <= 5, 2-4 branches'),
    outside='branches outside the listed set; N above the bound; branches that raise',
    assumptions=['the join definitions in vp/props/C08.py transcribe the property statement', 'each branch run alone is the specification of that branch (differential oracle)'],
    stubs=[],
)

BR = {
    'id': [['identity']], 'even': [['filter_even']], 'odd': [['filter_odd']], 'scan': [['scan_add']], 'count_r': [['count_r']],
    'last': [['last']], 'take1': [['take1']], 'batch2': [['batch2_sum']], 'rollsum': [['roll', 2, 1, [['scan_add_r']]]],
    'inc': [['map_inc']], 'rolltum': [['roll', 2, 2, [['scan_add_r']]]], 'tee_zip': [['tee', 'zip', [[['filter_even']], [['identity']]]]], 'tee_cl': [['tee', 'combine_latest', [[['filter_odd']], [['count']]]]],
}


def join(traces, how, n):
    """traces: per branch timed trace [(t, v)], t in 0..n (n = completion)"""
    nb = len(traces)
    latest = [None] * nb
    has = [False] * nb
    out = []
    for t in range(n + 1):
        for b in range(nb):
            for (tt, v) in traces[b]:
                if tt != t:
                    continue
                if how == 'merge':
                    out.append((t, v))
                    continue
                latest[b] = v
                has[b] = True
                if how == 'combine_latest':
                    out.append((t, tuple(latest)))
                elif all(has):
                    out.append((t, tuple(latest)))
                    has = [False] * nb
    return out


def tee(p):
    how, brs, n, ctx = p['join'], p['branches'], p['n'], p['ctx']
    pre = ['-2**40 <= v%d <= 2**40' % i for i in range(n)]

    def build_tee():
        return rs.ops.tee_map(*[rx.pipe(*C.build(BR[b])[0]) for b in brs], join=how)

    def expected(items, mux):
        traces = [D.run_timed(items, C.build(BR[b])[0], mux=mux) for b in brs]
        return join(traces, how, len(items))

    def body(a):
        items = list(a)
        if ctx in ('root', 'plain'):
            mux = ctx == 'root'
            got = D.run_timed(items, [build_tee()], mux=mux)
            exp = expected(items, mux)
            return got == exp or fail(ctx=ctx, join=how, branches=brs, items=items, observed=got, expected=exp)
        head, tail = [], []
        inner = [D.tap(head), build_tee(), D.tap(tail)]
        if ctx == 'group':
            pipe = [rs.ops.group_by(C.KM['mod2'], inner)]
        elif ctx == 'roll22':
            pipe = [rs.data.roll(2, 2, inner)]
        elif ctx == 'roll33':
            pipe = [rs.data.roll(3, 3, inner)]
        elif ctx == 'roll21':
            pipe = [rs.data.roll(2, 1, inner)]
        elif ctx == 'split':
            pipe = [rs.data.split(C.PRED['tup2'], inner)]
        err = []
        D.src(items).pipe(rs.state.with_memory_store(pipe)).subscribe(on_error=lambda e: err.append(repr(e)))
        ins, ok1 = D.lifetimes(head)
        outs, ok2 = D.lifetimes(tail)
        if err or not ok1 or not ok2 or len(ins) != len(outs):
            return fail(ctx=ctx, items=items, head=head, tail=tail, err=err)
        for i, o in zip(ins, outs):
            exp = [v for _, v in expected(i, True)]
            if o != exp:
                return fail(ctx=ctx, join=how, branches=brs, items=items, lifetime_items=i, observed=o, expected=exp)
        return True
    return mk('tee', ints('v', n), pre, body)


def tee_none(p):
    """items may be None (a missing measurement passed through by identity): None is a value like any other for the joins"""
    how, n, ctx = p['join'], p['n'], p['ctx']

    def branches():
        return [rx.pipe(rs.ops.identity()), rx.pipe(rs.ops.map(lambda i: 7 if i is None else i + 1)), rx.pipe(rs.ops.filter(lambda i: i is None or i % 2 == 0))]

    def body(a):
        items = list(a)
        mux = ctx == 'root'
        got = D.run_timed(items, [rs.ops.tee_map(*branches(), join=how)], mux=mux)
        traces = [D.run_timed(items, [b], mux=mux) for b in branches()]
        exp = join(traces, how, len(items))
        return got == exp or fail(ctx=ctx, join=how, items=items, observed=got, expected=exp)
    return mk('tee_none', [('v%d' % i, 'Optional[int]') for i in range(n)], [], body)


def tee_many(p):
    """G groups live at once under one tee_map (G crosses 8 / 16): concrete schedule, symbolic values for three of the groups; every group's output is the join of the branches run alone on that group's items"""
    how, G, brs = p['join'], p['g'], p['branches']

    def body(a):
        v0, v1, v2 = a
        items = [(k, k) for k in range(G)] + [(G - 1, v0), (0, v1), (G // 2, v2), (G - 1, v1), (8 % G, v0)]
        log = []
        inner = [rs.ops.map(lambda i: i[1]), rs.ops.tee_map(*[rx.pipe(*C.build(BR[b])[0]) for b in brs], join=how), D.tap(log)]
        err = []
        D.src(items).pipe(rs.state.with_memory_store([rs.ops.group_by(lambda i: i[0], inner)])).subscribe(on_error=lambda e: err.append(repr(e)))
        outs, ok = D.lifetimes(log)
        if err or not ok or len(outs) != G:
            return fail(groups=G, err=err, wellformed=ok, seen=len(outs))
        for k in (0, 8 % G, G // 2, G - 2, G - 1):
            its = [v for kk, v in items if kk == k]
            traces = [D.run_timed(its, C.build(BR[b])[0], mux=True) for b in brs]
            exp = [v for _, v in join(traces, how, len(its))]
            if outs[k] != exp:
                return fail(groups=G, join=how, branches=brs, group=k, group_items=its, observed=outs[k], expected=exp)
        return True
    return mk('tee_many', [('v0', 'int'), ('v1', 'int'), ('v2', 'int')], ['-2**40 <= v%d <= 2**40' % i for i in range(3)], body)


def tee_long(p):
    """one key, n items (n crosses 255 / 256 tuples in one lifetime): the first three items symbolic, the rest concrete"""
    how, n, brs = p['join'], p['n'], p['branches']

    def body(a):
        items = list(a) + list(range(3, n))
        got = D.run_timed(items, [rs.ops.tee_map(*[rx.pipe(*C.build(BR[b])[0]) for b in brs], join=how)], mux=True)
        traces = [D.run_timed(items, C.build(BR[b])[0], mux=True) for b in brs]
        exp = join(traces, how, len(items))
        return got == exp or fail(join=how, branches=brs, n=n, first_difference=[(g, e) for g, e in zip(got, exp) if g != e][:2], lengths=(len(got), len(exp)))
    return mk('tee_long', [('v0', 'int'), ('v1', 'int'), ('v2', 'int')], ['-2**40 <= v%d <= 2**40' % i for i in range(3)], body)


FAMILIES = {'tee': tee, 'tee_none': tee_none, 'tee_many': tee_many, 'tee_long': tee_long}

SETS = [['even', 'odd'], ['id', 'even'], ['scan', 'count_r'], ['even', 'last'], ['take1', 'scan'], ['batch2', 'id'], ['rollsum', 'even'],
        ['even', 'odd', 'id'], ['count_r', 'even', 'scan'], ['last', 'odd', 'batch2'], ['tee_zip', 'odd'], ['tee_cl', 'even'],
        ['scan', 'take1'], ['id', 'count_r', 'take1'], ['even', 'rolltum'], ['id', 'rolltum']]
SETS4 = [['even', 'odd', 'id', 'count_r'], ['scan', 'even', 'last', 'odd'], ['take1', 'batch2', 'odd', 'inc']]


def obligations(tier, seed):
    obs = []
    q = tier == 'quick'
    b = 150 if q else 900
    for how in ('zip', 'merge', 'combine_latest'):
        for brs in SETS + ([] if q else SETS4):
            for ctx in ('root', 'plain'):
                for n in (((3,) if 'rolltum' in brs else (4,)) if q else (3, 5)):
                    if ctx == 'plain' and any(x in ('rollsum', 'rolltum') for x in brs):
                        continue     # roll is mux-only
                    obs.append(Ob(PROP, 'tee', dict(join=how, branches=brs, ctx=ctx, n=n), budget=b, group='tee:' + ctx,
                                  bound=dict(items=n, branches=brs, join=how, ctx=ctx)))
        for brs in ([['even', 'odd'], ['even', 'odd', 'id'], ['scan', 'even'], ['last', 'odd']] if q else SETS[:10]):
            for ctx, ns in (('group', (3, 4) if q else (4, 5)), ('roll22', (4,) if q else (4, 5)), ('roll33', (6,)), ('roll21', (3,) if q else (4,)), ('split', (3,) if q else (4,))):
                for n in ns:
                    if n == 6 and len(brs) > 2 and q:
                        continue
                    obs.append(Ob(PROP, 'tee', dict(join=how, branches=brs, ctx=ctx, n=n), budget=b, group='tee:' + ctx,
                                  bound=dict(items=n, branches=brs, join=how, ctx=ctx)))
    for how in ('zip', 'merge', 'combine_latest'):
        for ctx in ('root', 'plain'):
            obs.append(Ob(PROP, 'tee_none', dict(join=how, ctx=ctx, n=3 if q else 4), budget=b, group='tee_none', bound=dict(items=3 if q else 4, values='int or None', join=how, ctx=ctx)))
    for how in ('zip', 'combine_latest'):
        for g in ((10, 17) if q else (9, 10, 17, 33, 65)):
            obs.append(Ob(PROP, 'tee_many', dict(join=how, g=g, branches=['even', 'odd']), budget=b * 2, group='tee_many', bound=dict(groups=g, join=how, values='3 symbolic items')))
        obs.append(Ob(PROP, 'tee_long', dict(join=how, n=260, branches=['id', 'inc']), budget=b * 2, group='tee_long', bound=dict(items=260, join=how)))
    obs.append(Ob(PROP, 'tee', dict(join='zip', branches=['even', 'odd'], ctx='roll22', n=4, _twin='reach'), budget=60, expect='refute'))
    return obs
