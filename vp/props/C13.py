"""C13 item-level errors on multiplexed streams are isolated and routable."""
import rx
import rxsci as rs
from rx.subject import Subject
from vp import drivers as D
from vp.engine import Ob
from vp.harness import mk, fail
from vp.props.common import quiet

PROP = 'C13'
META = dict(
    explanation='The user function of map / starmap / filter / scan (streaming and reduce) raises on a symbolic condition (v % 3 == 0), so every subset of failing items (first, last, consecutive, all) is a path. Pipelines [raising op, handler, tail] '
                'with handler in {ignore, error.map(-> -1), error router, none} and tail in {identity, count, to_list, scan} run under multiplex (stateless tails), under with_memory_store and inside group_by with 2 interleaved keys. '
                'Oracle from the statement at list level: with ignore/router the main output equals the output of the same real pipeline on the items with the failing ones removed (other keys and later items unaffected); '
                'with error.map the failing item is replaced in place by the mapped value; the router delivers the exceptions in source order to the dead-letter observable, which completes exactly when the stream completes; '
                'with no handler the final subscriber receives the outputs produced before the first failing item, then on_error with that exception, and nothing after - also when the failing operator sits before a group_by, and when the only handler sits after the group_by (the error is unhandled where the group stream is demultiplexed).',
    bounds=dict(quick='N <= 3 items (N <= 4 on the root key), <= 2 groups, |v| <= 2^40; long-but-narrow: 9 / 17 / 34 keys live at once, the failing function a map before a scan or the scan accumulator itself (int and tuple seeds)', thorough='N <= 5 (root), N <= 4 with 2 groups'),
    outside='errors raised by other operators; handlers not placed directly after the raising operator; N above the bound',
    assumptions=['the same real pipeline on the items without the failing ones is the specification of "as if the item were absent" (differential oracle)'],
    stubs=[],
)


class Bad(Exception):
    pass


def bad(v):
    return v % 3 == 0


def _raising(op):
    if op == 'map':
        def f(i):
            if bad(i):
                raise Bad(i)
            return i + 1
        return [rs.ops.map(f)], (lambda v: v + 1), None
    if op == 'starmap':
        def g(a, b):
            if bad(a):
                raise Bad(a)
            return a + b
        return [rs.ops.map(lambda i: (i, 1)), rs.ops.starmap(g)], (lambda v: v + 1), None
    if op == 'filter':
        def p(i):
            if bad(i):
                raise Bad(i)
            return i % 3 == 2      # residue 0 fails, 1 is dropped, 2 is kept: one three-way fork per item
        return [rs.ops.filter(p)], None, (lambda v: v % 3 == 2)
    if op == 'scan':
        def acc(a, i):
            if bad(i):
                raise Bad(i)
            return a + i
        return [rs.ops.scan(acc, seed=0)], 'scan', None
    if op == 'scan_r':
        def acc_r(a, i):
            if bad(i):
                raise Bad(i)
            return a + i
        return [rs.ops.scan(acc_r, seed=0, reduce=True)], 'scan_r', None
    raise KeyError(op)


def _mid(op, items, replace):
    """list-level output of the raising stage for one key: failing items absent (replace None) or replaced in place"""
    out = []
    acc = 0
    for v in items:
        if bad(v):
            if replace is not None:
                out.append(replace)
            continue
        if op in ('map', 'starmap'):
            out.append(v + 1)
        elif op == 'filter':
            if v % 3 == 2:
                out.append(v)
        elif op == 'scan':
            acc = acc + v
            out.append(acc)
        else:
            acc = acc + v
    if op == 'scan_r':
        out.append(acc)          # the single reduce value, at completion, over the items that did not fail
    return out


TAILS = {
    'identity': lambda: [rs.ops.identity()],
    'count': lambda: [rs.ops.count(reduce=True)],
    'to_list': lambda: [rs.data.to_list(), rs.ops.map(lambda l: tuple(l))],
    'scan': lambda: [rs.ops.scan(lambda a, i: a + i, seed=0)],
}


def isolate(p):
    """params: op, handler ignore|map|router|none, tail, ctx multiplex|root|group, n"""
    op, handler, tail, ctx, n = p['op'], p['handler'], p['tail'], p['ctx'], p['n']
    sig = []
    pre = []
    for i in range(n):
        if ctx in ('group', 'group_outer'):
            sig.append(('k%d' % i, 'bool'))
        sig.append(('v%d' % i, 'int'))
        pre.append('-2**40 <= v%d <= 2**40' % i)
    names = [a for a, _ in sig]

    def body(a):
        d = dict(zip(names, a))
        vals = [d['v%d' % i] for i in range(n)]
        keys = [(1 if d.get('k%d' % i, False) else 0) for i in range(n)]
        dead = []
        events = []
        if handler == 'router':
            errors, route = rs.error.create_error_router()
            errors.subscribe(on_next=lambda e: dead.append(e.args[0] if isinstance(e, Bad) else repr(e)),
                             on_completed=lambda: events.append('dead_completed'), on_error=lambda e: events.append('dead_error'))
            h = [route()]
        elif handler == 'ignore':
            h = [rs.error.ignore()]
        elif handler == 'map':
            h = [rs.error.map(lambda e: -1)]
        else:
            h = []
        stage = _raising(op)[0]
        glog = []
        inner = stage + h + TAILS[tail]() + ([D.tap(glog)] if ctx == 'group' else [])
        out = []
        s = Subject()
        cur = [0]
        if ctx == 'multiplex':
            pipe = rs.ops.multiplex(inner)
            src_items = vals
        elif ctx == 'root':
            pipe = rs.state.with_memory_store(inner)
            src_items = vals
        elif ctx == 'group':
            pipe = rs.state.with_memory_store([rs.ops.group_by(lambda i: i[0], [rs.ops.map(lambda i: i[1])] + inner)])
            src_items = list(zip(keys, vals))
        elif ctx == 'pre_group':
            # the failing operator sits before a group_by, no handler anywhere: the error reaches a demultiplexing point unhandled
            pipe = rs.state.with_memory_store(stage + [rs.ops.group_by(lambda i: 0 if i % 2 == 0 else 1, TAILS[tail]())])
            src_items = vals
        else:
            # group_outer: the handler is placed after the group_by, not directly after the failing operator: the error is unhandled
            # where the group's stream is demultiplexed and must surface as on_error there
            pipe = rs.state.with_memory_store([rs.ops.group_by(lambda i: i[0], [rs.ops.map(lambda i: i[1])] + stage + TAILS[tail]())] + h)
            src_items = list(zip(keys, vals))
        quiet(lambda: s.pipe(pipe).subscribe(on_next=lambda v: out.append((cur[0], v)),
                                             on_error=lambda e: (out.append((cur[0], ('ERR', e.args[0] if isinstance(e, Bad) else repr(e)))), events.append('main_error')),
                                             on_completed=lambda: events.append('main_completed')))

        def push():
            for t, v in enumerate(src_items):
                cur[0] = t
                s.on_next(v)
            cur[0] = n
            s.on_completed()
        quiet(push)
        groups = [0, 1] if ctx in ('group', 'group_outer') else [0]
        per_key = {g: [v for k, v in zip(keys, vals) if k == g] for g in groups} if ctx == 'group' else {0: vals}
        first_bad = None
        for t, v in enumerate(vals):
            if bad(v):
                first_bad = t
                break
        got_vals = [v for _, v in out]
        if ctx in ('pre_group', 'group_outer'):
            if first_bad is None:
                return True
            exp = [v for t, v in _unhandled_prefix(ctx, keys, vals, first_bad)] + [('ERR', vals[first_bad])]
            if got_vals != exp or 'main_error' not in events or 'main_completed' in events:
                return fail(params=p, items=src_items, observed=got_vals, expected=exp, events=events)
            return True
        if handler == 'none':
            if first_bad is None:
                return True     # nothing fails: covered by the other families
            # outputs produced strictly before the failing item, then the error, nothing after
            exp_prefix = _before(op, tail, ctx, keys, vals, first_bad)
            exp = exp_prefix + [('ERR', vals[first_bad])]
            if got_vals != exp or events != ['main_error']:
                return fail(params=p, items=src_items, observed=got_vals, expected=exp, events=events)
            return True
        # handled: expected main output = tail applied, per key, to the list-level stage output
        replace = -1 if handler == 'map' else None
        exp_by_key = {g: D.run_mux(_mid(op, per_key[g], replace), TAILS[tail]()) for g in per_key}
        if ctx == 'group':
            # group outputs interleave; compare per group via values tagged by order of production:
            got_by_key = _bucket(glog, keys)
            if got_by_key is None:
                return fail(params=p, items=src_items, observed=got_vals, expected=exp_by_key, note='could not bucket outputs')
            for g in per_key:
                if per_key[g] and got_by_key.get(g, []) != exp_by_key[g]:
                    return fail(params=p, items=src_items, group=g, observed=got_by_key.get(g), expected=exp_by_key[g])
            total = sum(len(exp_by_key[g]) for g in per_key if per_key[g])
            if len(got_vals) != total:
                return fail(params=p, items=src_items, observed=got_vals, expected=exp_by_key)
        else:
            if got_vals != exp_by_key[0]:
                return fail(params=p, items=src_items, observed=got_vals, expected=exp_by_key[0])
        if handler == 'router':
            exp_dead = [v for v in vals if bad(v)]
            if dead != exp_dead or events != ['dead_completed', 'main_completed']:
                return fail(params=p, items=src_items, dead=dead, expected_dead=exp_dead, events=events)
        elif events != ['main_completed']:
            return fail(params=p, items=src_items, events=events)
        return True

    def _unhandled_prefix(ctx_, keys, vals, first_bad):
        """outputs of the same pipeline (without the handler) on the items before the first failing one, completion excluded"""
        st = _raising(op)[0]
        if ctx_ == 'pre_group':
            prefix = vals[:first_bad]
            ops_ = st + [rs.ops.group_by(lambda i: 0 if i % 2 == 0 else 1, TAILS[tail]())]
        else:
            prefix = list(zip(keys, vals))[:first_bad]
            ops_ = [rs.ops.group_by(lambda i: i[0], [rs.ops.map(lambda i: i[1])] + st + TAILS[tail]())]
        tr = quiet(D.run_timed, prefix, ops_, True)
        return [(t, v) for t, v in tr if t < len(prefix)]

    def _before(op_, tail_, ctx_, keys, vals, first_bad):
        """outputs of the handler-less pipeline on the prefix before the first failing item, completion excluded"""
        prefix = list(zip(keys, vals))[:first_bad] if ctx_ == 'group' else vals[:first_bad]
        inner = _raising(op_)[0] + TAILS[tail_]()
        if ctx_ == 'multiplex':
            pipe = [rs.ops.multiplex(inner)]
            tr = quiet(D.run_timed, prefix, pipe, False)
        elif ctx_ == 'root':
            tr = quiet(D.run_timed, prefix, inner, True)
        else:
            tr = quiet(D.run_timed, prefix, [rs.ops.group_by(lambda i: i[0], [rs.ops.map(lambda i: i[1])] + inner)], True)
        return [v for t, v in tr if t < len(prefix)]

    def _bucket(log, keys):
        """bucket the tail-tap log per group (group index = order of first appearance)"""
        order = []
        for k in keys:
            if k not in order:
                order.append(k)
        res = {}
        buckets, wf = D.lifetimes(log)         # bucket by creation order of the groups
        if len(buckets) != len(order):
            return None
        for gi, k in enumerate(order):
            res[k] = buckets[gi]
        return res
    return mk('isolate', sig, pre, body)


def isolate_many(p):
    """K keys live at once (K crosses growth steps / cache capacities): the FIRST item of key 0 may fail (symbolic), then every other key gets one item,
    then key 0 and the last key get further items, one of which may fail; with ignore / router every key's outputs are those of the run without the failing items"""
    K, handler, seedkind = p['k'], p['handler'], p['seed']
    where = p.get('where', 'map')           # 'scan': the failing function is the scan accumulator itself, the handler follows the scan

    def body(a):
        v0, v1, v2 = a
        items = [(0, v0)] + [(k, 3 * k + 1) for k in range(1, K)] + [(0, v1), (K - 1, v2), (0, 5)] + [(k, 3 * k + 4) for k in range(K)]      # every key gets a last item: a state lost in between shows
        dead = []
        if handler == 'router':
            errors, route = rs.error.create_error_router()
            errors.subscribe(on_next=lambda e: dead.append(e.args[0] if isinstance(e, Bad) else repr(e)))
            h = [route()]
        else:
            h = [rs.error.ignore()]

        def f(i):
            if bad(i):
                raise Bad(i)
            return i + 1
        if seedkind == 'int':
            tail = [rs.ops.scan(lambda acc, i: acc + i, seed=1000)]
        else:
            tail = [rs.ops.scan(lambda acc, i: acc + (i,), seed=())]
        log = []
        inner = [rs.ops.map(lambda i: i[1]), rs.ops.map(f)] + h + tail + [D.tap(log)]
        if where == 'scan':
            if seedkind == 'int':
                sc = rs.ops.scan(lambda acc, i: acc + f(i), seed=1000)
            else:
                sc = rs.ops.scan(lambda acc, i: acc + (f(i),), seed=())
            inner = [rs.ops.map(lambda i: i[1]), sc] + h + [D.tap(log)]
        err = []
        quiet(lambda: D.src(items).pipe(rs.state.with_memory_store([rs.ops.group_by(lambda i: i[0], inner)])).subscribe(on_error=lambda e: err.append(repr(e))))
        outs, ok = D.lifetimes(log)
        if err or not ok or len(outs) != K:
            return fail(keys=K, err=err, wellformed=ok, seen=len(outs))
        for k in range(K):
            good = [v + 1 for kk, v in items if kk == k and not bad(v)]
            exp = []
            acc = 1000 if seedkind == 'int' else ()
            for g in good:
                acc = acc + g if seedkind == 'int' else acc + (g,)
                exp.append(acc)
            if outs[k] != exp:
                return fail(keys=K, key=k, items_of_key=[v for kk, v in items if kk == k], observed=outs[k], expected=exp)
        if handler == 'router' and dead != [v for _, v in items if bad(v)]:
            return fail(keys=K, dead=dead)
        return True
    return mk('isolate_many', [('v0', 'int'), ('v1', 'int'), ('v2', 'int')], ['-2**40 <= v%d <= 2**40' % i for i in range(3)], body)


FAMILIES = {'isolate': isolate, 'isolate_many': isolate_many}


def obligations(tier, seed):
    obs = []
    q = tier == 'quick'
    b = 300 if q else 1200
    for op in ('map', 'starmap', 'filter', 'scan', 'scan_r'):
        for handler in ('ignore', 'map', 'router', 'none'):
            if op not in ('scan', 'scan_r'):
                obs.append(Ob(PROP, 'isolate', dict(op=op, handler=handler, tail='identity', ctx='multiplex', n=3 if q else 5), budget=b, group='multiplex',
                              bound=dict(items=3 if q else 5, ctx='multiplex')))
            for tail in ('identity', 'count', 'to_list', 'scan'):
                if q and tail in ('count', 'scan') and op in ('starmap', 'scan_r'):
                    continue
                obs.append(Ob(PROP, 'isolate', dict(op=op, handler=handler, tail=tail, ctx='root', n=3 if q else 5), budget=b, group='root',
                              bound=dict(items=3 if q else 5, ctx='with_memory_store root key')))
                if q and (tail in ('count',) or op in ('starmap', 'scan_r')):
                    continue
                obs.append(Ob(PROP, 'isolate', dict(op=op, handler=handler, tail=tail, ctx='group', n=3 if q else 4), budget=b, group='group',
                              bound=dict(items=3 if q else 4, groups=2, ctx='group_by')))
    for op in ('map', 'filter', 'scan'):
        for tail in ('identity', 'scan'):
            obs.append(Ob(PROP, 'isolate', dict(op=op, handler='none', tail=tail, ctx='pre_group', n=3 if q else 4), budget=b, group='pre_group', bound=dict(items=3 if q else 4, ctx='failing operator before a group_by, no handler')))
            for handler in ('ignore', 'router'):
                obs.append(Ob(PROP, 'isolate', dict(op=op, handler=handler, tail=tail, ctx='group_outer', n=3), budget=b, group='group_outer', bound=dict(items=3, groups=2, ctx='handler after the group_by')))
    for k in ((9, 17, 34) if q else (9, 10, 17, 33, 34, 65, 129)):
        for handler in ('ignore', 'router'):
            for seedkind in ('int', 'tuple'):
                obs.append(Ob(PROP, 'isolate_many', dict(k=k, handler=handler, seed=seedkind), budget=b, group='many live keys', bound=dict(live_keys=k, handler=handler, downstream='scan with %s seed' % seedkind)))
                if handler == 'ignore' or not q:
                    obs.append(Ob(PROP, 'isolate_many', dict(k=k, handler=handler, seed=seedkind, where='scan'), budget=b, group='many live keys', bound=dict(live_keys=k, handler=handler, failing='scan accumulator with %s seed' % seedkind)))
    obs.append(Ob(PROP, 'isolate', dict(op='map', handler='router', tail='scan', ctx='group', n=3, _twin='reach'), budget=60, expect='refute'))
    return obs
