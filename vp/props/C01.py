"""C01 multiplexing is transparent: keyed execution equals per-group plain execution."""
import random

import rx
import rxsci as rs
from vp import catalog as C
from vp import drivers as D
from vp.engine import Ob
from vp.harness import mk, fail, conc
from vp.props.common import quiet

PROP = 'C01'
META = dict(
    explanation='Differential, real code on both sides: for a pipeline P of dual-mode operators and N symbolic (group, value) pairs, the per-group outputs of with_memory_store([group_by(key, P)]) (bucketed by a tap at the tail of the inner pipeline) '
                'must equal, items and order, what rx.from_(values of that group).pipe(*P) emits on a plain observable. The group of each item is a solver variable (concretised by a comparison cascade), so every interleaving of <= G groups is a path. '
                'A second form compares with_memory_store(P) on the root key with the plain run; a third spreads the pipeline over two chained with_memory_store stages; a fourth takes the keys from split / roll (successive lifetimes on one re-used key slot) and compares every lifetime with the plain run on its items. Programs: every dual-mode catalogue operator alone, seeded type-correct compositions to depth 3, tee_map with the three joins over depth-1/2 branches. '
                'Float-valued operators (sum, mean, variance, stddev, formal.*) are run with z3 Real terms as items at native speed (z3x family): mux and plain output terms must be identical or provably equal - over the reals and, for the accumulating ones, over IEEE binary64 terms (bit-for-bit the same operation sequence per group, whatever the other groups did in between).',
    bounds=dict(quick='N <= 3 items, G <= 2 groups, |v| <= 2^40; ~37 single operators, 30 seeded depth-2, 12 seeded depth-3, 9 tee_map programs; z3x: N <= 5, G <= 3; long-but-narrow: 10 and 17 groups live at once (concrete keys, 4 symbolic values) through 8 pipelines incl. tee_map zip / combine_latest / merge',
                thorough='N <= 4, G <= 3 (N <= 5 for branch-free pipelines); 300 seeded programs; z3x: N <= 7, G <= 3'),
    outside='pipelines not enumerated; N, G above the bound; int64 overflow of typed state; the preconditions of the statement are assumed: first/last/reduce on an empty sequence (plain RxPY raises) is skipped, '
            'tee_map branches do not place completion-triggered operators after take/first, predicates return bool, failing assert_ is compared in single-group form only',
    assumptions=['plain RxPY execution of the same operator objects is the specification (differential oracle)'],
    stubs=['z3x family: FloatSlots (list-backed array(\'d\') replacement passing z3 terms through), math.sqrt as an uninterpreted function'],
)

EMPTY_ERR = 'SequenceContainsNoElementsError'


def _plain(items, desc):
    out = []
    D.src(items).pipe(*C.build(desc)[0]).subscribe(on_next=out.append, on_error=lambda e: out.append(('ERR', type(e).__name__)))
    return out


def grouped(p):
    desc, n, g = p['desc'], p['n'], p['g']
    opt = p.get('opt', False)          # items may be None (a missing measurement): only None-tolerant operators are used then
    sig = []
    pre = []
    for i in range(n):
        sig += [('k%d' % i, 'int'), ('v%d' % i, 'Optional[int]' if opt else 'int')]
        pre += ['0 <= k%d <= %d' % (i, g - 1), ('v%d is None or ' % i if opt else '') + '-2**40 <= v%d <= 2**40' % i]

    def body(a):
        items = [(conc(a[2 * i], g), a[2 * i + 1]) for i in range(n)]
        log = []
        err = []
        inner = [rs.ops.map(lambda i: i[1])] + C.build(desc)[0] + [D.tap(log)]
        D.src(items).pipe(rs.state.with_memory_store([rs.ops.group_by(lambda i: i[0], inner)])).subscribe(on_error=lambda e: err.append(type(e).__name__))
        order = []
        for k, _ in items:
            if k not in order:
                order.append(k)
        buckets, wf = D.lifetimes(log)         # groups are created in order of first appearance: bucket by creation order, not by the index values handed out
        if len(buckets) != len(order) or not wf:
            return fail(pipeline=C.show(desc), items=items, problem='group lifecycles at the tail of the inner pipeline', log=log, stream_error=err)
        for gi, k in enumerate(order):
            vals = [v for kk, v in items if kk == k]
            exp = _plain(vals, desc)
            got = buckets[gi]
            if exp and exp[-1] == ('ERR', EMPTY_ERR):
                continue       # precondition of the statement: first/last/reduce applied to an empty sequence
            if got != exp or err:
                return fail(pipeline=C.show(desc), items=items, group=k, group_items=vals, observed=got, expected=exp, stream_error=err)
        return True
    return mk('grouped', sig, pre, body)


def many_groups(p):
    """K groups live at once (K crosses table growth steps 8 / 16 / 64; keys are concrete, four item values symbolic): every group receives an item as it is created,
    then groups 0, 1, K-1 and a middle one receive further, symbolic, items at different rates; each group's outputs equal the plain run of the pipeline on its items"""
    desc, K = p['desc'], p['k']
    pre = ['-2**40 <= v%d <= 2**40' % i for i in range(4)]

    def body(a):
        v0, v1, v2, v3 = a
        items = [(0, v0)] + [(k, k) for k in range(1, K)] + [(0, v1), (K - 1, v2), (8 % K, v3), (0, v2), (1, v0), (K - 1, v1), (9 % K, 4), (K // 2, v3), (0, 6)]
        log, err = [], []
        inner = [rs.ops.map(lambda i: i[1])] + C.build(desc)[0] + [D.tap(log)]
        D.src(items).pipe(rs.state.with_memory_store([rs.ops.group_by(lambda i: i[0], inner)])).subscribe(on_error=lambda e: err.append(type(e).__name__))
        buckets, wf = D.lifetimes(log)
        if len(buckets) != K or not wf or err:
            return fail(pipeline=C.show(desc), live_groups=K, problem='group lifecycles at the tail of the inner pipeline', groups_seen=len(buckets), stream_error=err)
        for k in range(K):
            vals = [v for kk, v in items if kk == k]
            exp = _plain(vals, desc)
            if exp and exp[-1] == ('ERR', EMPTY_ERR):
                continue
            if buckets[k] != exp:
                return fail(pipeline=C.show(desc), live_groups=K, group=k, group_items=vals, observed=buckets[k], expected=exp)
        return True
    return mk('many_groups', [('v%d' % i, 'int') for i in range(4)], pre, body)


def lifetimes(p):
    """keys produced by split / roll instead of group_by: successive lifetimes re-use one key slot; every lifetime's outputs must equal the plain run on that lifetime's items"""
    desc, n, parent = p['desc'], p['n'], p['parent']
    pre = ['-2**40 <= v%d <= 2**40' % i for i in range(n)]

    def body(a):
        items = list(a)
        head, tail = [], []
        inner = [D.tap(head)] + C.build(desc)[0] + [D.tap(tail)]
        if parent == 'split':
            pipe = [rs.data.split(C.PRED['tup2'], inner)]
        elif parent == 'roll22':
            pipe = [rs.data.roll(2, 2, inner)]
        else:
            pipe = [rs.data.roll(3, 3, inner)]
        err = []
        D.src(items).pipe(rs.state.with_memory_store(pipe)).subscribe(on_error=lambda e: err.append(type(e).__name__))
        ins, ok1 = D.lifetimes(head)
        outs, ok2 = D.lifetimes(tail)
        if err or not ok1 or not ok2 or len(ins) != len(outs):
            return fail(pipeline=C.show(desc), parent=parent, items=items, head=head, tail=tail, err=err)
        for i, o in zip(ins, outs):
            exp = _plain(i, desc)
            if exp and exp[-1] == ('ERR', EMPTY_ERR):
                continue
            if o != exp:
                return fail(pipeline=C.show(desc), parent=parent, items=items, lifetime_items=i, observed=o, expected=exp)
        return True
    return mk('lifetimes', [('v%d' % i, 'int') for i in range(n)], pre, body)


def two_stores(p):
    """the pipeline is spread over two chained with_memory_store stages on one multiplexed source (hand-built mux events, solver-chosen key per item):
    the states of the second stage must live in the second store"""
    desc, n, g, cut = p['desc'], p['n'], p['g'], p['cut']
    sig = []
    pre = []
    for i in range(n):
        sig += [('k%d' % i, 'int'), ('v%d' % i, 'int')]
        pre += ['0 <= k%d <= %d' % (i, g - 1), '-2**40 <= v%d <= 2**40' % i]

    def body(a):
        items = [(conc(a[2 * i], g), a[2 * i + 1]) for i in range(n)]
        order = []
        for k, _ in items:
            if k not in order:
                order.append(k)
        ev = [rs.OnCreateMux((k,)) for k in order] + [rs.OnNextMux((k,), v) for k, v in items] + [rs.OnCompletedMux((k,)) for k in order]
        log, err = [], []

        def sub(observer, scheduler=None):
            for e in ev:
                observer.on_next(e)
            observer.on_completed()
        real = C.build(desc)[0]
        # build() returns a flat operator list: cut it after `cut` catalogue entries
        first = C.build(desc[:cut])[0]
        second = C.build(desc[cut:])[0]
        rs.MuxObservable(sub).pipe(rs.state.with_memory_store(first), rs.state.with_memory_store(second + [D.tap(log)])).subscribe(on_error=lambda e: err.append(type(e).__name__))
        for k in order:
            vals = [v for kk, v in items if kk == k]
            exp = _plain(vals, desc)
            got = [e[2] for e in log if e[0] == 'n' and e[1] == k]
            if exp and exp[-1] == ('ERR', EMPTY_ERR):
                continue
            if got != exp or err:
                return fail(pipeline=C.show(desc), stores_cut_after=cut, items=items, group=k, group_items=vals, observed=got, expected=exp, stream_error=err)
        return True
    return mk('two_stores', sig, pre, body)


def root(p):
    desc, n = p['desc'], p['n']
    pre = ['-2**40 <= v%d <= 2**40' % i for i in range(n)]

    def body(a):
        items = list(a)
        exp = _plain(items, desc)
        got = D.run_mux(items, C.build(desc)[0])
        if exp and exp[-1] == ('ERR', EMPTY_ERR):
            return True
        return got == exp or fail(pipeline=C.show(desc), items=items, observed=got, expected=exp)
    return mk('root', [('v%d' % i, 'int') for i in range(n)], pre, body)


def asserting(p):
    """assert_ / assert_1 that can fail, single group: same items then the same error kind"""
    which, n = p['op'], p['n']
    pre = ['0 <= v%d <= 3' % i for i in range(n)]   # the error message format()s its operands

    def mkop():
        if which == 'assert_':
            return [rs.ops.assert_(lambda i: i != 2, name='a')]
        return [rs.ops.assert_1(lambda a, b: a <= b, name='a')]

    def body(a):
        items = list(a)
        exp = []
        D.src(items).pipe(*mkop()).subscribe(on_next=exp.append, on_error=lambda e: exp.append(('ERR', type(e).__name__)))
        got = D.run_mux(items, mkop())
        return got == exp or fail(op=which, items=items, observed=got, expected=exp)
    return mk('asserting', [('v%d' % i, 'int') for i in range(n)], pre, body)


FLOAT_PROGS = {
    'sum': lambda: [rs.math.sum()], 'sum_r': lambda: [rs.math.sum(reduce=True)],
    'mean': lambda: [rs.math.mean()], 'mean_r': lambda: [rs.math.mean(reduce=True)],
    'var': lambda: [rs.math.variance()], 'var_r': lambda: [rs.math.variance(reduce=True)],
    'std': lambda: [rs.math.stddev()], 'std_r': lambda: [rs.math.stddev(reduce=True)],
    'fvar': lambda: [rs.math.formal.variance()], 'fvar_r': lambda: [rs.math.formal.variance(reduce=True)],
    'fstd': lambda: [rs.math.formal.stddev()], 'fstd_r': lambda: [rs.math.formal.stddev(reduce=True)],
    'sum>var': lambda: [rs.math.sum(), rs.math.variance()],
    'inc>mean>scan': lambda: [rs.ops.map(lambda i: i + 1), rs.math.mean(), rs.ops.scan(lambda a, i: a + i, seed=0.0)],
    'tee(sum,var_r)': lambda: [rs.ops.tee_map(rs.math.sum(), rs.math.variance(reduce=True), join='combine_latest')],
    'var_k>last': lambda: [rs.math.variance(key_mapper=lambda i: i * 3), rs.ops.last()],
    'min>sum': lambda: [rs.math.min(), rs.math.sum()],           # min / max branch on the data: the term executor forks
    'max_r': lambda: [rs.math.max(reduce=True)],
}


class Floats(object):
    """z3x: float-valued operators run at native speed with z3 Real terms as items; every assignment of the N items to <= G groups is enumerated
    (their control flow does not depend on item values) and the mux output terms are compared with the plain output terms, syntactically first, by unsat of != otherwise"""

    def __init__(self, p):
        self.p = p

    def _run(self, prog, items, values):
        from vp import z3x
        with z3x.float_slots(), z3x.sqrt_uf():
            log, err = [], []
            inner = [rs.ops.map(lambda i: i[1])] + FLOAT_PROGS[prog]() + [D.tap(log)]
            D.src(items).pipe(rs.state.with_memory_store([rs.ops.group_by(lambda i: i[0], inner)])).subscribe(on_error=lambda e: err.append(repr(e)))
            order = []
            for k, _ in items:
                if k not in order:
                    order.append(k)
            res = []
            buckets, _wf = D.lifetimes(log)     # bucket by creation order of the groups
            for gi, k in enumerate(order):
                exp = []
                D.src([v for kk, v in items if kk == k]).pipe(*FLOAT_PROGS[prog]()).subscribe(on_next=exp.append, on_error=lambda e: exp.append(('ERR', repr(e))))
                got = buckets[gi] if gi < len(buckets) else []
                res.append((k, got, exp))
        return res, err

    def __call__(self):
        import itertools
        import z3
        from vp import z3x
        prog, n, g = self.p['prog'], self.p['n'], self.p['g']
        q = z3x.Queries(cross_check=self.p.get('cross', False))
        fp = self.p.get('fp', False)
        xs = [z3.FP('x%d' % i, z3.Float64()) for i in range(n)] if fp else [z3.Real('x%d' % i) for i in range(n)]
        shapes = 0
        bad, unknown = [], []
        for keys in itertools.product(range(g), repeat=n):
            if any(keys[i] > max(keys[:i] + (-1,)) + 1 for i in range(n)):
                continue          # group names are canonical up to renaming (restricted growth string)
            shapes += 1
            paths, complete = z3x.explore(lambda: self._run(prog, list(zip(keys, xs)), xs), q)
            if not complete:
                unknown.append('too many data-dependent paths for %s %s' % (prog, keys))
            triples = []
            for pc, (res, err) in paths:
                for k, got, exp in res:
                    triples.append((pc, err, k, got, exp))
            for pc, err, k, got, exp in triples:
                if err or len(got) != len(exp):
                    bad.append(dict(prog=prog, keys=keys, problem='different number of outputs', observed=len(got), expected=len(exp), err=err, replay=dict(prog=prog, keys=list(keys))))
                    continue
                for j, (a, b) in enumerate(zip(got, exp)):
                    pairs = list(zip(a, b)) if isinstance(a, tuple) and isinstance(b, tuple) and len(a) == len(b) else [(a, b)]
                    for (u, v) in pairs:
                        if u is None and v is None:
                            continue
                        r, m = z3x.equal_under(pc, u, v, q, '%s keys=%s group=%s out#%d' % (prog, keys, k, j))
                        if r in ('same', 'unsat'):
                            continue
                        if r == 'sat':
                            vals = None
                            if fp and m is not None:
                                vals = []
                                for x in xs:
                                    rv = z3.simplify(m.eval(z3.fpToReal(x), model_completion=True))
                                    try:
                                        vals.append(float(rv.numerator_as_long()) / float(rv.denominator_as_long()))
                                    except Exception:
                                        vals = None
                                        break
                            bad.append(dict(prog=prog, keys=keys, group=k, output=j, replay=dict(prog=prog, keys=list(keys), vals=vals)))
                        else:
                            unknown.append('%s on %s %s' % (r, prog, keys))
        out = dict(paths=shapes, solver_queries=q.n, solver_s=round(q.solver_s, 3), queries=q.log[:20], encoded=['float-valued rxsci.math operators executed on z3 Real terms through the real group_by / scan / map / tee_map'])
        real_bad = []
        for b_ in bad:
            rp = self.replay([b_['replay']])
            if rp['reproduced']:
                b_.update(rp['detail'])
                real_bad.append(b_)
            else:
                unknown.append('term difference does not reproduce concretely: %s' % (b_,))
        if real_bad:
            out.update(verdict='REFUTED', cex=dict(args=[real_bad[0]['replay']], kwargs={}), detail=real_bad[0])
        elif unknown:
            out.update(verdict='INCONCLUSIVE', reason=str(unknown[:3]))
        else:
            out.update(verdict='CONFIRMED')
        return out

    def replay(self, args):
        a = args[0]
        keys = a['keys']
        vals = (a.get('vals') or [1.5, -2.0, 4.25, 10.0, 0.5, 7.0, -3.5, 2.0])[:len(keys)]
        import math
        out = []
        log, err = [], []
        inner = [rs.ops.map(lambda i: i[1])] + FLOAT_PROGS[a['prog']]() + [D.tap(log)]
        items = list(zip(keys, vals))
        D.src(items).pipe(rs.state.with_memory_store([rs.ops.group_by(lambda i: i[0], inner)])).subscribe(on_error=lambda e: err.append(repr(e)))
        order = []
        for k in keys:
            if k not in order:
                order.append(k)
        diff = None
        buckets, _wf = D.lifetimes(log)
        for gi, k in enumerate(order):
            exp = []
            D.src([v for kk, v in items if kk == k]).pipe(*FLOAT_PROGS[a['prog']]()).subscribe(on_next=exp.append, on_error=lambda e: exp.append(('ERR', repr(e))))
            got = buckets[gi] if gi < len(buckets) else []
            if got != exp or err:
                diff = dict(items=items, group=k, observed=got, expected=exp, err=err)
                break
        return dict(reproduced=diff is not None, detail=diff or {})


FAMILIES = {'many_groups': many_groups, 'grouped': grouped, 'root': root, 'asserting': asserting, 'floats': Floats, 'lifetimes': lifetimes, 'two_stores': two_stores}


def _tee_ok(desc, in_tee=False):
    """precondition of the statement: inside tee_map no completion-triggered operator after take/first"""
    early = False
    for d in desc:
        if isinstance(d, str):
            d = [d]
        if d[0] == 'tee':
            for b in d[2]:
                if not _tee_ok(b, True):
                    return False
            if in_tee and early:
                return False   # zip/combine of reducing branches is completion-triggered too
        elif d[0] in C.EARLY:
            early = True
        elif in_tee and early and d[0] in C.COMPLETION:
            return False
    return True


def programs(tier, seed):
    q = tier == 'quick'
    r = random.Random(3000 + seed)
    progs = [('leaf', [[k]]) for k in C.DUAL]
    for j in ('zip', 'merge', 'combine_latest'):
        progs.append(('tee', [['tee', j, [[['count']], [['scan_max']]]]]))
        progs.append(('tee', [['tee', j, [[['filter_even']], [['scan_add']]]]]))
        progs.append(('tee', [['tee', j, [[['last']], [['filter_odd'], ['count_r']], [['to_list_sum']]]]]))
    seen = set()
    want2, want3 = (30, 12) if q else (200, 100)
    tries = 0
    n2 = n3 = 0
    while (n2 < want2 or n3 < want3) and tries < 100000:
        tries += 1
        depth = r.choice([1, 2])
        d = C.gen(r, depth, mux_only_ok=False, length=r.choice([2, 3]))
        if repr(d) in seen or not _tee_ok(d):
            continue
        if C.branching(d) ** 3 > (40 if q else 150):
            continue
        if len(d) == 2 and n2 < want2:
            n2 += 1
        elif len(d) == 3 and n3 < want3:
            n3 += 1
        else:
            continue
        seen.add(repr(d))
        progs.append(('seeded%d' % len(d), d))
    return progs


def obligations(tier, seed):
    obs = []
    q = tier == 'quick'
    b = 150 if q else 600
    for kind, d in programs(tier, seed):
        br = C.branching(d)
        for n in ((1, 2, 3) if q else (1, 2, 3, 4)):
            g = 2 if (q or n < 3) else 3
            if (g * br) ** n > (300 if q else 700):
                continue
            obs.append(Ob(PROP, 'grouped', dict(desc=d, n=n, g=g), budget=b, group='grouped:' + kind, bound=dict(items=n, groups=g, pipeline=C.show(d))))
        nr = 3 if q else (5 if br == 1 else 4)
        obs.append(Ob(PROP, 'root', dict(desc=d, n=nr), budget=b, group='root', bound=dict(items=nr, pipeline=C.show(d))))
        if kind == 'leaf':
            obs.append(Ob(PROP, 'root', dict(desc=d, n=0), budget=b, group='root', bound=dict(items=0, pipeline=C.show(d))))
        if kind in ('tee', 'seeded2') or (kind == 'leaf' and d[0][0] in C.STATEFUL):
            for parent, nn in ((('split', 3), ('roll22', 4)) if q else (('split', 4), ('roll22', 4), ('roll33', 6))):
                if q and (kind == 'seeded2' or (kind == 'leaf' and parent != 'split')):
                    continue
                while nn > 2 and br ** nn > (40 if q else 300):
                    nn -= 1
                obs.append(Ob(PROP, 'lifetimes', dict(desc=d, n=nn, parent=parent), budget=b, group='lifetimes:' + parent, bound=dict(items=nn, parent=parent, pipeline=C.show(d))))
    for j in ('zip', 'combine_latest', 'merge'):
        for d in ([['tee', j, [[['identity']], [['fill_none']]]]], [['tee', j, [[['do_action']], [['count']], [['fill_none']]]]]):
            obs.append(Ob(PROP, 'grouped', dict(desc=d, n=3, g=2, opt=True), budget=b, group='grouped:optional items', bound=dict(items=3, groups=2, values='int or None', pipeline=C.show(d))))
    mg = [[['tee', 'zip', [[['filter_even']], [['identity']]]]], [['tee', 'combine_latest', [[['filter_even']], [['scan_add']]]]], [['tee', 'merge', [[['take2']], [['scan_add']]]]],
          [['scan_add']], [['take2'], ['count']], [['duc'], ['to_list_sum']], [['batch2_sum'], ['last']], [['tee', 'zip', [[['count']], [['filter_odd']], [['identity']]]]]]
    for d in mg:
        for k in ((10, 17) if q else (9, 10, 17, 33, 65, 129)):
            obs.append(Ob(PROP, 'many_groups', dict(desc=d, k=k), budget=b * 2, group='many live groups', bound=dict(live_groups=k, pipeline=C.show(d), symbolic_items=4)))
    ts = [[['take2'], ['count'], ['map_inc']], [['scan_add'], ['first'], ['scan_max']], [['duc'], ['take1'], ['to_list_sum']], [['batch2_sum'], ['last']], [['count'], ['scan_add_r']]]
    for d in ts:
        for cut in range(1, len(d)):
            obs.append(Ob(PROP, 'two_stores', dict(desc=d, n=3 if q else 4, g=2, cut=cut), budget=b, group='two_stores', bound=dict(items=3 if q else 4, groups=2, pipeline=C.show(d), second_store_after=cut)))
    for op in ('assert_', 'assert_1'):
        for n in ((2, 3) if q else (2, 3, 4)):
            obs.append(Ob(PROP, 'asserting', dict(op=op, n=n), budget=b, bound=dict(items=n, values='0..3')))
    for prog in FLOAT_PROGS:
        for n in ((2, 3, 4, 5) if q else (2, 3, 4, 5, 6, 7)):
            g = 3
            obs.append(Ob(PROP, 'floats', dict(prog=prog, n=n, g=g, cross=not q), kind='direct', budget=200 if q else 900, group='floats(z3x)',
                          bound=dict(items=n, groups=g, values='any real', pipeline=prog)))
    for prog in ('sum', 'sum_r', 'mean', 'var', 'sum>var', 'tee(sum,var_r)'):
        obs.append(Ob(PROP, 'floats', dict(prog=prog, n=4, g=2, fp=True), kind='direct', budget=200 if q else 900, group='floats(z3x, IEEE binary64 terms)',
                      bound=dict(items=4, groups=2, values='any binary64', pipeline=prog)))
    obs.append(Ob(PROP, 'grouped', dict(desc=[['filter_even'], ['scan_add']], n=3, g=2, _twin='reach'), budget=60, expect='refute'))
    return obs
