"""C12 math aggregates are accurate and numerically stable."""
from fractions import Fraction

import rx
import rxsci as rs
from vp import drivers as D
from vp.engine import Ob
from vp.harness import mk, fail

PROP = 'C12'
META = dict(
    explanation='z3x: the real closures of rxsci.math are executed on z3 terms. (1) Algebraic exactness over the reals, unbounded length: the accumulator captured from the real variance() factory is run from the symbolic state '
                '(A/k, B - A^2/k, k) (A = sum x, B = sum x^2, k >= 1 an integer variable) on one more item and z3 shows the post-state is the same invariant for k+1 (Welford induction step), the base case from the real seed, and the real output map '
                'gives B-A^2/k over k-1 for k >= 2 and 0 below; likewise sum and mean. (2) Whole runs of the real pipelines (sum, mean, variance, stddev, formal.variance, formal.stddev, with and without key_mapper) on n <= 5 real-valued terms, on plain observables '
                'and per key under with_memory_store: every streaming output and the reduce output equal the textbook definition (sample n-1 / population n), variance of fewer than two items is 0, and the streaming value after the last item equals the reduce value (the operator objects have first served a subscription aborted by an rx-level error: a retry must start afresh); data-dependent branches of the closures (min / max comparisons, or any equality test on items) are forked on by the term executor and every feasible path is checked under its path condition. '
                '(3) Rounding at reduced width: the same real variance closure runs on IEEE terms of a small format F; for all data x1, x2 in [16, 32) with reference variance >= 1 (condition number <= 32) z3 shows |variance_F - reference| <= reference/4, the first-order '
                'Chan-Golub-LeVeque bound n*kappa*u for a Welford/two-pass update at u = 2^-8; the textbook sum-of-squares formula violates it. (4) min / max (which branch on the data) by symbolic execution on integers.',
    bounds=dict(quick='induction: any k >= 1 (unbounded); whole runs n <= 4 terms, 2 groups; rounding: F = FPSort(5,8), reference in FPSort(8,20), n = 2', thorough='whole runs n <= 5; rounding also binary16 vs binary32, cvc5 cross-check of every query'),
    outside='the error bound in binary64 and for n >= 3 in any format (bit-blasting three Welford steps exceeds 25 min at 8 significand bits: the binary64 claim rests on the code being format-generic and is an analogy, not a verdict); '
            'sequences of length 10^4 are covered only by the induction over the reals; math.sqrt itself (uninterpreted function)',
    assumptions=['array(\'d\') state replaced by FloatSlots (validated against array(\'d\'))', 'math.sqrt is an uninterpreted function over the reals: only congruence is used'],
    stubs=['FloatSlots', 'SqrtUF'],
)


# ---------------------------------------------------------------- helpers

def _plain(items, ops, retry=False):
    out = []
    obs = (D.flaky_src(items, 1) if retry else D.src(items)).pipe(*ops)
    if retry:
        obs.subscribe(on_next=lambda i: None, on_error=lambda e: None)      # first subscription of the same observable fails after one item
    obs.subscribe(on_next=out.append, on_error=lambda e: out.append(('ERR', repr(e))))
    return out


def _mux(items, ops, retry=False):
    out = []
    obs = (D.flaky_src(items, 1) if retry else D.src(items)).pipe(rs.state.with_memory_store(list(ops)))
    if retry:
        obs.subscribe(on_next=lambda i: None, on_error=lambda e: None)
    obs.subscribe(on_next=out.append, on_error=lambda e: out.append(('ERR', repr(e))))
    return out


def _defs(xs, kind):
    """textbook definitions on a prefix xs of real terms"""
    import z3
    n = len(xs)
    if kind == 'sum':
        return sum(xs[1:], xs[0]) if xs else z3.RealVal(0)
    if kind in ('min', 'max'):
        m = xs[0]
        for x in xs[1:]:
            m = z3.If(x < m, x, m) if kind == 'min' else z3.If(x > m, x, m)
        return m
    mean = sum(xs[1:], xs[0]) / n
    if kind == 'mean':
        return mean
    ss = sum(((x - mean) * (x - mean) for x in xs[1:]), (xs[0] - mean) * (xs[0] - mean))
    if kind == 'var':
        return ss / (n - 1) if n >= 2 else z3.RealVal(0)
    if kind == 'fvar':
        return ss / n
    raise KeyError(kind)


OPS = {
    # name: (factory(reduce), definition kind, sqrt?)
    'sum': (lambda r: rs.math.sum(reduce=r), 'sum', False),
    'mean': (lambda r: rs.math.mean(reduce=r), 'mean', False),
    'variance': (lambda r: rs.math.variance(reduce=r), 'var', False),
    'stddev': (lambda r: rs.math.stddev(reduce=r), 'var', True),
    'fvariance': (lambda r: rs.math.formal.variance(reduce=r), 'fvar', False),
    'fstddev': (lambda r: rs.math.formal.stddev(reduce=r), 'fvar', True),
    'variance_k': (lambda r: rs.math.variance(key_mapper=lambda i: i * 2, reduce=r), 'var', False),
    'mean_k': (lambda r: rs.math.mean(key_mapper=lambda i: i * 2, reduce=r), 'mean', False),
    'min': (lambda r: rs.math.min(reduce=r), 'min', False),
    'max': (lambda r: rs.math.max(reduce=r), 'max', False),
}


class Result(object):
    """direct-obligation base: collects queries, classifies"""

    def __init__(self, p):
        self.p = p

    def finish(self, q, bad, unknown, extra=None):
        out = dict(paths=getattr(self, 'npaths', 0), solver_queries=q.n, solver_s=round(q.solver_s, 3), queries=q.log[:40])
        if extra:
            out.update(extra)
        if q.disagree:
            out.update(verdict='INCONCLUSIVE', reason='z3 and cvc5 disagree on %s' % q.disagree)
        elif bad:
            out.update(verdict='REFUTED', cex=dict(args=[bad[0].get('replay')], kwargs={}), detail=bad[0])
        elif unknown:
            out.update(verdict='INCONCLUSIVE', reason='solver unknown / encoding failure: %s' % unknown[:3])
        else:
            out.update(verdict='CONFIRMED')
        return out


def _model_vals(m, xs):
    import z3
    vals = []
    for x in xs:
        v = m.eval(x, model_completion=True)
        try:
            vals.append(float(Fraction(v.numerator_as_long(), v.denominator_as_long())))
        except Exception:
            vals.append(float(v.approx(20).numerator_as_long()) / float(v.approx(20).denominator_as_long()))
    return vals


def _concrete_check(name, reduce, mode, vals):
    """replay on the real code with Python floats: compare with the definition computed in exact rational arithmetic"""
    fac, kind, sq = OPS[name]
    got = _plain(vals, [fac(reduce)], retry=len(vals) >= 1) if mode == 'plain' else _mux(vals, [fac(reduce)], retry=len(vals) >= 1)     # the same retry history as the symbolic run
    exp = []
    km = 2 if name.endswith('_k') else 1
    fr = [Fraction(v) * km for v in vals]
    prefixes = [fr] if reduce else [fr[:i + 1] for i in range(len(fr))]
    for pre in prefixes:
        n = len(pre)
        if n == 0:
            exp.append(0.0)
            continue
        mean = sum(pre) / n
        if kind == 'sum':
            e = sum(pre)
        elif kind in ('min', 'max'):
            e = min(pre) if kind == 'min' else max(pre)
        elif kind == 'mean':
            e = mean
        elif kind == 'var':
            e = sum((x - mean) ** 2 for x in pre) / (n - 1) if n >= 2 else Fraction(0)
        else:
            e = sum((x - mean) ** 2 for x in pre) / n
        e = float(e)
        exp.append(e ** 0.5 if sq else e)
    ok = len(got) == len(exp) and all(isinstance(g, float) or isinstance(g, int) for g in got) and all(abs(g - e) <= 1e-6 * max(1.0, abs(e)) for g, e in zip(got, exp))
    return ok, got, exp


class WholeRun(Result):
    """real pipeline on n real-valued terms vs the textbook definition, streaming and reduce, plain and mux"""

    def __call__(self):
        import z3
        from vp import z3x
        name, n, mode = self.p['op'], self.p['n'], self.p['mode']
        fac, kind, sq = OPS[name]
        q = z3x.Queries(cross_check=self.p.get('cross', False))
        xs = [z3.Real('x%d' % i) for i in range(n)]
        km = 2 if name.endswith('_k') else 1
        bad, unknown = [], []
        run = _plain if mode == 'plain' else _mux

        def both():
            # retry history: the same observable first serves a subscription that fails at the rx level after one item
            return run(xs, [fac(False)], retry=n >= 1), run(xs, [fac(True)], retry=n >= 1)
        with z3x.float_slots(), z3x.sqrt_uf():
            paths, complete = z3x.explore(both, q)
        self.npaths = len(paths)
        if not complete:
            unknown.append('more than %d data-dependent paths' % len(paths))
        for pc, (stream, red) in paths:
            if len(stream) != n or (len(red) != 1):
                if not (n == 0 and mode == 'plain' and name.startswith('mean')):
                    bad.append(dict(problem='number of outputs', streaming=len(stream), reduce=len(red), n=n, replay=dict(op=name, mode=mode, vals=[1.0, 2.0, 4.0, 8.0, 16.0][:n])))
                    continue
            for i, out in enumerate(stream + red):
                pre = [x * km for x in (xs[:i + 1] if i < n else xs)]
                if not pre:
                    continue
                d = _defs(pre, kind)
                exp = z3x.SqrtUF.F(d) if sq else d
                if isinstance(out, tuple) and out and out[0] == 'ERR':
                    unknown.append('pipeline error on terms: %s' % (out[1][:100],))
                    continue
                r, m = z3x.equal_under(pc, out, exp, q, '%s %s n=%d out#%d' % (name, mode, n, i))
                if r in ('same', 'unsat'):
                    continue
                if r == 'sat':
                    vals = _model_vals(m, xs)
                    ok, got, want = _concrete_check(name, i >= n, mode, vals)
                    if not ok:
                        bad.append(dict(op=name, mode=mode, reduce=i >= n, items=vals, observed=got, expected=want, replay=dict(op=name, mode=mode, vals=vals, reduce=i >= n)))
                    else:
                        unknown.append('model does not reproduce: %s' % vals)
                else:
                    unknown.append('%s on output %d' % (r, i))
            # streaming value after the last item == reduce value
            if n >= 1 and stream and red:
                r, m = z3x.equal_under(pc, stream[-1], red[0], q, '%s %s n=%d last-streaming == reduce' % (name, mode, n))
                if r == 'sat':
                    vals = _model_vals(m, xs)
                    s_ok, s_got, _ = _concrete_check(name, False, mode, vals)
                    r_ok, r_got, _ = _concrete_check(name, True, mode, vals)
                    if s_got[-1:] != r_got[-1:]:
                        bad.append(dict(op=name, mode=mode, items=vals, problem='streaming value after the last item differs from the reduce value', streaming=s_got, reduce=r_got,
                                        replay=dict(op=name, mode=mode, vals=vals, cmp='stream_reduce')))
                    else:
                        unknown.append('stream/reduce model does not reproduce')
                elif r not in ('same', 'unsat'):
                    unknown.append('%s on stream==reduce' % r)
        return self.finish(q, bad, unknown, dict(encoded=['rxsci/math/*.py accumulators and output maps executed on z3 Real terms through the real scan/map operators']))

    def replay(self, args):
        a = args[0]
        if a.get('cmp') == 'stream_reduce':
            _, s_got, _ = _concrete_check(a['op'], False, a['mode'], a['vals'])
            _, r_got, _ = _concrete_check(a['op'], True, a['mode'], a['vals'])
            return dict(reproduced=s_got[-1:] != r_got[-1:], detail=dict(streaming=s_got, reduce=r_got))
        ok, got, exp = _concrete_check(a['op'], a.get('reduce', False), a['mode'], a['vals'])
        return dict(reproduced=not ok, detail=dict(observed=got, expected=exp))


class AssumedInt(object):
    """integer term with a stated lower bound: answers the comparisons the bound entails, refuses the others"""

    def __init__(self, term, lo):
        self.t = term
        self.lo = lo

    def __lt__(self, c):
        if isinstance(c, int) and c <= self.lo:
            return False
        raise TypeError('comparison not entailed by the assumption k >= %d' % self.lo)

    def __sub__(self, c):
        import z3
        return z3.ToReal(self.t) - c

    def __add__(self, c):
        return AssumedInt(self.t + c, self.lo + c)


class Induction(Result):
    """Welford step, base case and output map of the real variance closure over the reals, for every k"""

    def __call__(self):
        import z3
        from vp import z3x
        q = z3x.Queries(cross_check=self.p.get('cross', False))
        which = self.p['which']
        bad, unknown = [], []
        scans = z3x.capture_scan(rs.math.variance)
        acc, seed = scans[0]['acc'], scans[0]['seed']
        A, B, x = z3.Reals('A B x')
        k = z3.Int('k')
        kr = z3.ToReal(k)
        if which == 'step':
            m, s = A / kr, B - A * A / kr
            try:
                paths, complete = z3x.explore(lambda: acc((m, s, k), x), q)
                if not complete:
                    unknown.append('too many data-dependent paths in the accumulator')
                for pc, (m2, s2, k2) in paths:
                    goal = z3.And(m2 == (A + x) / z3.ToReal(k + 1), s2 == (B + x * x) - (A + x) * (A + x) / z3.ToReal(k + 1), k2 == k + 1)
                    r, mod = q.check('welford induction step (all k >= 1)', [k >= 1] + list(pc) + [z3.Not(goal)], timeout_s=120)
                    if r == 'sat':
                        # replay: a concrete history reaching the model state, on the real pipeline
                        kv = mod.eval(k, model_completion=True).as_long()
                        av = _model_vals(mod, [A, x])
                        mean = av[0] / max(kv, 1)
                        vals = [mean] * min(kv, 6) + [av[1]]
                        ok, got, exp = _concrete_check('variance', True, 'plain', vals)
                        if not ok:
                            bad.append(dict(problem='Welford step violates the invariant', k=kv, items=vals, observed=got, expected=exp, replay=dict(op='variance', mode='plain', vals=vals, reduce=True)))
                        else:
                            unknown.append('induction-step model (k=%d) does not reproduce on a concrete history' % kv)
                    elif r != 'unsat':
                        unknown.append(r)
            except Exception as e:  # noqa
                unknown.append('accumulator not executable on terms: %r' % (e,))
        elif which == 'base':
            try:
                m1, s1, k1 = acc(seed, x)
                r, mod = q.check('welford base case', [z3.Not(z3.And(m1 == x, s1 == 0, k1 == 1))], timeout_s=60) if isinstance(m1, z3.ExprRef) else ('unsat' if (s1 == 0 and k1 == 1) else 'sat', None)
                if r == 'sat':
                    ok, got, exp = _concrete_check('variance', False, 'plain', [3.0, 5.0])
                    (bad if not ok else unknown).append(dict(problem='base case', observed=got, expected=exp, replay=dict(op='variance', mode='plain', vals=[3.0, 5.0])) if not ok else 'model does not reproduce')
                elif r != 'unsat':
                    unknown.append(r)
            except Exception as e:  # noqa
                unknown.append('accumulator not executable on terms: %r' % (e,))
        else:  # output map
            maps = []
            orig = rs.ops.map

            def fake(f):
                maps.append(f)
                return orig(f)
            rs.ops.map = fake
            try:
                rs.math.variance()
            finally:
                rs.ops.map = orig
            f = maps[-1]
            S = z3.Real('S')
            try:
                o0 = f((None, 0, 0))
                o1 = f((x, 0, 1))
                ok_small = (o0 == 0.0 and o1 == 0.0)
                o = f((A, S, AssumedInt(k, 2)))
                r, mod = q.check('output map: S/(k-1) for k >= 2', [k >= 2, o != S / (kr - 1)], timeout_s=60)
                if not ok_small or r == 'sat':
                    ok, got, exp = _concrete_check('variance', False, 'plain', [3.0, 5.0, 11.0])
                    (bad if not ok else unknown).append(dict(problem='output map', observed=got, expected=exp, replay=dict(op='variance', mode='plain', vals=[3.0, 5.0, 11.0])) if not ok else 'model does not reproduce')
                elif r != 'unsat':
                    unknown.append(r)
            except Exception as e:  # noqa
                unknown.append('output map not executable on terms: %r' % (e,))
        return self.finish(q, bad, unknown, dict(encoded=['rxsci/math/variance.py:variance.<locals>.accumulate', 'rxsci/math/variance.py output map lambda']))

    def replay(self, args):
        a = args[0]
        ok, got, exp = _concrete_check(a['op'], a.get('reduce', False), a['mode'], a['vals'])
        return dict(reproduced=not ok, detail=dict(observed=got, expected=exp))


# ---------------------------------------------------------------- rounding at reduced width

class SoftFloat(object):
    """software IEEE float of (eb, sb) bits with round-to-nearest-even, for replaying reduced-width counterexamples on the real closures"""

    def __init__(self, v, eb, sb):
        self.eb, self.sb = eb, sb
        self.v = self._round(Fraction(v))

    def _round(self, f):
        if f == 0:
            return Fraction(0)
        sign = -1 if f < 0 else 1
        f = abs(f)
        bias = 2 ** (self.eb - 1) - 1
        e = 0
        while Fraction(2) ** (e + 1) <= f:
            e += 1
        while Fraction(2) ** e > f:
            e -= 1
        e = max(e, 1 - bias)
        q = f / Fraction(2) ** (e - (self.sb - 1))
        n = q.numerator // q.denominator
        rem = q - n
        if rem > Fraction(1, 2) or (rem == Fraction(1, 2) and n % 2 == 1):
            n += 1
        return sign * n * Fraction(2) ** (e - (self.sb - 1))

    def _c(self, o):
        return o.v if isinstance(o, SoftFloat) else Fraction(o)

    def _n(self, f):
        return SoftFloat(f, self.eb, self.sb)

    def __add__(self, o): return self._n(self.v + self._c(o))
    __radd__ = __add__
    def __sub__(self, o): return self._n(self.v - self._c(o))
    def __rsub__(self, o): return self._n(self._c(o) - self.v)
    def __mul__(self, o): return self._n(self.v * self._c(o))
    __rmul__ = __mul__
    def __truediv__(self, o): return self._n(self.v / self._c(o))
    def __lt__(self, o): return self.v < self._c(o)
    def __gt__(self, o): return self.v > self._c(o)
    def __le__(self, o): return self.v <= self._c(o)
    def __ge__(self, o): return self.v >= self._c(o)
    def __neg__(self): return self._n(-self.v)
    def __abs__(self): return self._n(abs(self.v))

    def __pow__(self, n):
        r = self
        for _ in range(int(n) - 1):
            r = r * self
        return r


class Rounding(Result):
    """|variance_F - reference| <= reference / 4 for all x1, x2 in [16, 32) with reference >= 1"""

    def _variance_on(self, items):
        if self.p.get('op') == 'fvariance':
            return _plain(items, [rs.math.formal.variance(reduce=True)])[-1]
        return _plain(items, [rs.math.variance()])[-1]

    def __call__(self):
        import z3
        from vp import z3x
        eb, sb, web, wsb = self.p['eb'], self.p['sb'], self.p['web'], self.p['wsb']
        n = self.p.get('n', 2)
        q = z3x.Queries(cross_check=self.p.get('cross', False))
        F, W, rm = z3.FPSort(eb, sb), z3.FPSort(web, wsb), z3.RNE()
        fx = [z3.FP('f%d' % i, F) for i in range(n)]
        bad, unknown = [], []

        def fp_pow(self_, k):        # x ** 2 on IEEE terms: repeated (correctly rounded) multiplication
            r = self_
            for _ in range(int(k) - 1):
                r = r * self_
            return r
        z3.FPRef.__pow__ = fp_pow
        try:
            # data-dependent branches of the closures (a clamp such as max(v, 0.0), a guard on the sign) are explored path by path
            paths, complete = z3x.explore(lambda: self._variance_on(fx), q, max_paths=16)
            paths = [(pc, z3.FPVal(float(v), F) if isinstance(v, (int, float)) else v) for pc, v in paths]
            if not complete or not all(isinstance(v, z3.FPRef) for _, v in paths):
                raise TypeError('variance returned %r' % ([v for _, v in paths][:2],))
        except Exception as e:  # noqa
            return self.finish(q, bad, ['closure not executable on FP terms: %r' % (e,)])
        wx = [z3.fpFPToFP(rm, x, W) for x in fx]
        mean = sum(wx[1:], wx[0]) / z3.FPVal(n, W)
        pop = self.p.get('op') == 'fvariance'
        ref = sum([(x - mean) * (x - mean) for x in wx[1:]], (wx[0] - mean) * (wx[0] - mean)) / z3.FPVal(n if pop else n - 1, W)
        base = []
        for x in fx:
            base += [z3.fpGEQ(x, z3.FPVal(16, F)), z3.fpLT(x, z3.FPVal(32, F))]
        base.append(z3.fpGEQ(ref, z3.FPVal(1.0, W)))
        for pi, (pc, v) in enumerate(paths):
            vw = z3.fpFPToFP(rm, v, W)
            cons = base + list(pc) + [z3.Or(z3.fpGT(z3.fpAbs(vw - ref), z3.FPVal(0.25, W) * ref), z3.fpIsNaN(vw))]
            r, m = q.check('rounding FPSort(%d,%d) n=%d path %d' % (eb, sb, n, pi), cons, timeout_s=self.p.get('timeout', 300), logic='QF_FP')
            if r == 'sat':
                vals = []
                for x in fx:
                    rv = m.eval(z3.fpToReal(x), model_completion=True)
                    rv = z3.simplify(rv)
                    vals.append(str(Fraction(rv.numerator_as_long(), rv.denominator_as_long())))
                rp = self.replay([dict(vals=vals, eb=eb, sb=sb, op=self.p.get('op'))])
                if rp['reproduced']:
                    bad.append(dict(problem='relative error above n*kappa*u', format=[eb, sb], replay=dict(vals=vals, eb=eb, sb=sb, op=self.p.get('op')), **rp['detail']))
                else:
                    unknown.append('model does not reproduce in software floating point: %s' % rp['detail'])
            elif r != 'unsat':
                unknown.append('solver answered %s' % r)
        return self.finish(q, bad, unknown, dict(encoded=['rxsci/math/variance.py accumulate + output map executed on z3 FP terms through the real scan/map operators']))

    def replay(self, args):
        a = args[0]
        eb, sb = a['eb'], a['sb']
        self.p = dict(self.p, op=a.get('op'))
        xs = [SoftFloat(Fraction(v), eb, sb) for v in a['vals']]
        got = self._variance_on(xs)
        fr = [x.v for x in xs]
        mean = sum(fr) / len(fr)
        ref = sum((x - mean) ** 2 for x in fr) / (len(fr) if a.get('op') == 'fvariance' else len(fr) - 1)
        gv = got.v if isinstance(got, SoftFloat) else Fraction(got)
        pre = all(16 <= x < 32 for x in fr) and ref >= 1
        bad = pre and abs(gv - ref) > ref / 4
        return dict(reproduced=bool(bad), detail=dict(items=[str(x) for x in fr], observed=str(gv), reference=str(ref), relative_error=float(abs(gv - ref) / ref) if ref else None))


class StubValid(Result):
    def __call__(self):
        from vp import z3x
        ok = z3x.validate_float_slots()
        # SoftFloat agrees with numpy float16 on a few operations (sanity of the replay arithmetic)
        try:
            import numpy as np
            import random
            r = random.Random(5)
            for _ in range(300):
                a, b = np.float16(r.uniform(16, 32)), np.float16(r.uniform(16, 32))
                for op in ('+', '-', '*', '/'):
                    want = eval('a %s b' % op)
                    got = eval('SoftFloat(Fraction(float(a)), 5, 11) %s SoftFloat(Fraction(float(b)), 5, 11)' % op)
                    if Fraction(float(want)) != got.v:
                        ok = False
        except ImportError:
            pass
        return dict(verdict='CONFIRMED' if ok else 'INCONCLUSIVE', reason=None if ok else 'stub invalid: FloatSlots / SoftFloat', paths=0, solver_queries=0, solver_s=0.0)


# ---------------------------------------------------------------- min / max (branch on the data): symx on ints

def minmax(p):
    op, n, mode, reduce = p['op'], p['n'], p['mode'], p['reduce']
    pre = ['-2**40 <= v%d <= 2**40' % i for i in range(n)]

    def body(a):
        items = list(a)
        km = (lambda i: -i) if p.get('km') else (lambda i: i)
        f = rs.math.min if op == 'min' else rs.math.max
        o = [f(key_mapper=km, reduce=reduce)]
        got = _plain(items, o) if mode == 'plain' else _mux(items, o)
        exp = []
        best = None
        for v in items:
            v = km(v)
            if best is None or (v < best if op == 'min' else v > best):
                best = v
            exp.append(best)
        if reduce:
            exp = [best]
        return got == exp or fail(op=op, mode=mode, items=items, observed=got, expected=exp)
    return mk('minmax', [('v%d' % i, 'int') for i in range(n)], pre, body)


def mux_fp(p):
    """accuracy on multiplexed sources with interleaved keys: the per-group result over IEEE binary64 terms must be bit-for-bit the plain result on that group's items
    (the transparency obligation of C01, here for the aggregates of this property)"""
    from vp.props import C01
    return C01.Floats(dict(prog=p['prog'], n=p['n'], g=2, fp=True))


FAMILIES = {'mux_fp': mux_fp, 'whole_run': WholeRun, 'induction': Induction, 'rounding': Rounding, 'stub_valid': StubValid, 'minmax': minmax}


def obligations(tier, seed):
    obs = [Ob(PROP, 'stub_valid', {}, kind='direct', budget=60, group='stub validation')]
    q = tier == 'quick'
    for which in ('step', 'base', 'output_map'):
        obs.append(Ob(PROP, 'induction', dict(which=which, cross=not q), kind='direct', budget=200, group='induction(z3x)', bound=dict(k='any integer >= 1', reals=True)))
    for name in OPS:
        for mode in ('plain', 'mux'):
            for n in ((1, 2, 3, 4) if q else (1, 2, 3, 4, 5)):
                if q and n == 4 and name in ('fstddev', 'stddev', 'variance_k'):
                    continue
                obs.append(Ob(PROP, 'whole_run', dict(op=name, mode=mode, n=n, cross=not q), kind='direct', budget=200 if q else 900, group='whole_run(z3x)',
                              bound=dict(items=n, values='any real', op=name, mode=mode)))
    obs.append(Ob(PROP, 'rounding', dict(eb=5, sb=8, web=8, wsb=20, timeout=250 if q else 900, cross=not q), kind='direct', budget=300 if q else 1000, group='rounding(z3x)',
                  bound=dict(format='FPSort(5,8)', reference='FPSort(8,20)', n=2, data='[16,32)', reference_variance='>= 1')))
    obs.append(Ob(PROP, 'rounding', dict(eb=5, sb=8, web=8, wsb=20, op='fvariance', timeout=250 if q else 900, cross=not q), kind='direct', budget=300 if q else 1000, group='rounding(z3x)',
                  bound=dict(format='FPSort(5,8)', reference='FPSort(8,20)', n=2, data='[16,32)', reference_variance='>= 1', operator='formal.variance (population)')))
    if not q:
        obs.append(Ob(PROP, 'rounding', dict(eb=5, sb=11, web=8, wsb=24, timeout=1500), kind='direct', budget=1600, group='rounding(z3x)',
                      bound=dict(format='binary16', reference='binary32', n=2, data='[16,32)')))
    for prog in ('sum', 'sum_r', 'mean', 'var', 'var_r', 'sum>var'):
        obs.append(Ob(PROP, 'mux_fp', dict(prog=prog, n=4), kind='direct', budget=200 if q else 900, group='mux_fp(z3x)', bound=dict(items=4, groups=2, values='any binary64', op=prog)))
    for op in ('min', 'max'):
        for mode in ('plain', 'mux'):
            for reduce in (False, True):
                for n in ((0, 3) if q else (0, 1, 4, 5)):
                    if n == 0 and mode == 'plain' and reduce:
                        pass
                    obs.append(Ob(PROP, 'minmax', dict(op=op, mode=mode, reduce=reduce, n=n, km=(n == 3)), budget=150 if q else 600, group='minmax(symx)', bound=dict(items=n, op=op, mode=mode)))
    obs.append(Ob(PROP, 'minmax', dict(op='min', mode='mux', reduce=False, n=3, _twin='reach'), budget=60, expect='refute'))
    return obs
