"""C18 CSV dump/load round-trips typed rows."""
import math

import rx
from rx.scheduler import ImmediateScheduler
import rxsci as rs
import rxsci.container.csv as csv
from vp import drivers as D
from vp.engine import Ob
from vp.harness import mk, fail
from vp.stubs import shortread

PROP = 'C18'
META = dict(
    explanation='Strings (symx): rows of 1-3 fields whose string characters are solver variables over the whole str alphabet except newline (field lengths concrete: every split of <= 3 characters over the fields, empty fields included), '
                'mixed with bool and small-int fields, are written by the real csv.dump and read back by the real csv.load(create_line_parser(dtype)) with separators , ; | tab and the two-character || and two escape characters: rows must come back equal field by field. '
                'Numbers (z3x): the current source of parse_decimal is re-executed on z3 terms - the decimal text str() prints for a double (sign, integer digits, fraction digits, no trailing zero) is symbolic, int()/float()/len()/split()/partition()/lstrip()/isdigit()/startswith() are term-building shims, branches on the sign are explored path by path, '
                'int/int division, float() and + are IEEE binary64 operations - and z3 decides whether the result can differ (value or sign) from the correctly rounded value of that text; exponent forms must take the float() fall-back. '
                'parse_int on symbolic digit strings, and its current source on terms for integers of up to 19 digits (whatever it composes from int() / float() must give back the exact integer). File form: dump_to_file / load_from_file over a file object whose read() stops short at solver-chosen positions (a chunk boundary anywhere, including inside a quoted field).',
    bounds=dict(quick='strings: <= 3 characters in total over <= 3 fields; ints from {-20,0,7,None}; decimals: |integer part| < 1000, 1..4 fraction digits (all such doubles as printed by str()), and 16-17 significant digits in five integer/fraction splits (digits as one integer above 2^53; the exact quotient modelled with a (72+4k)-bit significand); file form: 2 rows with one symbolic character, short reads at c1 and c1+1 for every position c1 of the file (one obligation each): a one-character chunk follows a partial line',
                thorough='strings: <= 4 characters; decimals: integer part < 10^6, 1..6 fraction digits; cvc5 cross-check of every z3x query'),
    outside='str(float) itself and float(str) (C code: modelled as correctly rounded, which is their documented contract); floats printed in exponent form beyond the fall-back check; more columns / longer strings than the bound; custom newline',
    assumptions=['float(text) is the correctly rounded binary64 value of the decimal text (CPython contract)', 'file objects may return short reads (ShortReadFile contract stub, validated with a real 200 KiB file)'],
    stubs=['ShortReadFile / WriteBuffer file objects'],
)

SEPS = {'comma': ',', 'semi': ';', 'pipe': '|', 'tab': '\t', 'dpipe': '||'}
ESCS = {'bs': '\\', 'caret': '^'}
INTS = [-20, 0, 7]


def _sel(x, n):
    for j in range(n - 1):
        if x <= j:
            return j
    return n - 1


def _roundtrip(rows, dtype, sep, esc):
    from collections import namedtuple
    Row = namedtuple('x', [c for c, _ in dtype])
    items = [Row(*r) for r in rows]
    lines = []
    D.src(items).pipe(csv.dump(header=True, separator=sep, escapechar=esc)).subscribe(on_next=lines.append, on_error=lambda e: lines.append(('ERR', repr(e))))
    for l in lines:
        if not isinstance(l, str) or not l.endswith('\n'):
            return ('dump failed', lines)
    stripped = [l[:-1] for l in lines]
    out = []
    D.src(stripped).pipe(csv.load(csv.create_line_parser(dtype=dtype, separator=sep, escapechar=esc))).subscribe(
        on_next=lambda r: out.append(tuple(r)), on_error=lambda e: out.append(('ERR', type(e).__name__, str(e)[:120])))
    return out


def strings(p):
    """params: cols (list of 's'|'b'|'i'), lens (length of each string column), sep, esc"""
    cols, lens, sep, esc = p['cols'], p['lens'], SEPS[p['sep']], ESCS[p['esc']]
    sig, pre = [], []
    si = 0
    for j, c in enumerate(cols):
        if c == 's':
            sig.append(('s%d' % j, 'str'))
            pre.append('len(s%d) == %d' % (j, lens[si]))
            si += 1
        elif c == 'b':
            sig.append(('b%d' % j, 'bool'))
        else:
            sig.append(('i%d' % j, 'int'))
            pre.append('0 <= i%d <= %d' % (j, len(INTS)))
    dtype = [('c%d' % j, {'s': str, 'b': bool, 'i': int}[c]) for j, c in enumerate(cols)]

    def body(a):
        row = []
        for j, c in enumerate(cols):
            v = a[j]
            if c == 's':
                if '\n' in v:
                    return True          # precondition: strings contain no newline
                row.append(v)
            elif c == 'b':
                row.append(True if v else False)
            else:
                k = _sel(v, len(INTS) + 1)
                row.append(None if k == len(INTS) else INTS[k])
        got = _roundtrip([tuple(row)], dtype, sep, esc)
        exp = [tuple(row)]
        return got == exp or fail(row=row, separator=sep, escapechar=esc, observed=got, expected=exp)
    return mk('csv_strings', sig, pre, body)


def parse_int_digits(p):
    n = p['n']

    def body(a):
        s, neg = a
        for ch in s:
            if not ('0' <= ch <= '9'):
                return True
        text = ('-' if neg else '') + s
        want = 0
        for ch in s:
            want = want * 10 + (ord(ch) - 48)
        if neg:
            want = -want
        got = csv.parse_int(text)
        return got == want or fail(text=text, observed=got, expected=want)
    return mk('parse_int_digits', [('s', 'str'), ('neg', 'bool')], ['len(s) == %d' % n], body)


def file_form(p):
    """two rows through dump_to_file / load_from_file over file objects with a solver-chosen short read"""
    sep, esc = SEPS[p['sep']], ESCS[p['esc']]
    l0, l1 = p['lens']
    dtype = [('a', str), ('b', bool)]
    sig = [('s0', 'str'), ('s1', 'str')]
    pre = ['len(s0) == %d' % l0, 'len(s1) == %d' % l1]
    c1 = p['c1']

    def body(a):
        s0, s1 = a
        if '\n' in s0 or '\n' in s1:
            return True
        from collections import namedtuple
        Row = namedtuple('x', ['a', 'b'])
        rows = [Row(s0, True), Row(s1, False)]
        wb = shortread.WriteBuffer('')
        done = []
        D.src(rows).pipe(csv.dump_to_file(wb, separator=sep, escapechar=esc)).subscribe(on_error=lambda e: done.append(('ERR', repr(e))), on_completed=lambda: done.append('C'))
        text = wb.value()
        if done != ['C']:
            return fail(stage='dump_to_file', done=done)
        if p.get('encoding'):
            # file given by name with an explicit encoding and a custom open_obj: whatever mode the loader asks for, the file delivers (text, or the utf-8 bytes of it)
            from vp.stubs import codecs_model
            modes = []

            def ropen(name, mode='r', encoding=None):
                modes.append((name, mode, encoding))
                if 'b' in mode:
                    return shortread.ShortReadFile(codecs_model.U8Enc().encode(text), [c1, c1 + 1])
                return shortread.ShortReadFile(text, [c1, c1 + 1])
            f, kwl = 'x.csv', dict(encoding=p['encoding'], open_obj=ropen)
        else:
            f, kwl = shortread.ShortReadFile(text, [c1, c1 + 1]), {}     # two short reads: ...c1 | one character | rest; a cut beyond the end of the text is never hit
        out = []
        csv.load_from_file(f, csv.create_line_parser(dtype=dtype, separator=sep, escapechar=esc), **kwl).subscribe(
            on_next=lambda r: out.append(tuple(r)), on_error=lambda e: out.append(('ERR', type(e).__name__, str(e)[:120])), scheduler=ImmediateScheduler())
        exp = [tuple(r) for r in rows]
        return out == exp or fail(rows=exp, file_text=text, short_read_at=c1, observed=out, expected=exp)
    return mk('csv_file_form', sig, pre, body)


# ---------------------------------------------------------------- z3x: parse_decimal on terms

class Decimal(object):
    """direct obligation: parse_decimal's current source executed on terms for texts <sign><I>.<F with k digits>.
    The text is an object whose string operations (len, split / partition at the dot, startswith / lstrip of the sign, isdigit, concatenation of the digit
    groups) answer over the terms neg, I, F; int() of a digit group is its exact value, float() of a digit string is the correctly rounded value (the
    contract of float(str)), arithmetic on the results is IEEE binary64, round to nearest even.  Branches on the sign are explored path by path."""

    def __init__(self, p):
        self.p = p

    def _exact(self, z3, N, k):
        """the correctly rounded quotient N / 10^k.  While N < 2^53 one binary64 division of exact operands is correctly rounded by definition; beyond, the
        division is carried out with a significand wide enough to hold N exactly and to make the second rounding harmless: a quotient N / 10^k that is not a
        binary64 rounding boundary differs from every boundary by more than 2^-(54 + 3.33 k) relative, far above the 2^-(72 + 4 k) error of the wide division"""
        F64, RNE = z3.Float64(), z3.RNE()
        if self.p['idigits'] + k <= 15:
            return z3.fpDiv(RNE, z3.fpSignedToFP(RNE, N, F64), z3.FPVal(10 ** k, F64))
        W = z3.FPSort(15, 72 + 4 * k)
        wide = z3.fpDiv(RNE, z3.fpSignedToFP(RNE, N, W), z3.fpSignedToFP(RNE, z3.BitVecVal(10 ** k, 128), W))
        return z3.fpToFP(RNE, wide, F64)

    def _terms(self):
        import z3
        from vp import z3x
        F64, RNE = z3.Float64(), z3.RNE()
        k, idig = self.p['k'], self.p['idigits']
        neg = z3.Bool('neg')
        I = z3.BitVec('I', 64)
        Fr = z3.BitVec('F', 64)
        N = I * (10 ** k) + Fr
        q = self._exact(z3, N, k)
        exact = z3.If(neg, z3.fpNeg(q), q)

        def fl(o):
            if isinstance(o, ZFloat):
                return o.t
            if isinstance(o, ZInt):
                return z3.fpSignedToFP(RNE, o.bv, F64)
            if isinstance(o, bool):
                raise TypeError('bool operand')
            if isinstance(o, (int, float)):
                return z3.FPVal(o, F64)
            raise TypeError('unsupported operand %r' % (type(o).__name__,))

        class ZInt(object):
            def __init__(self, bv):
                self.bv = bv

            def _bv(self, o):
                if isinstance(o, ZInt):
                    return o.bv
                if isinstance(o, int) and not isinstance(o, bool) and -2 ** 62 < o < 2 ** 62:
                    return z3.BitVecVal(o, 64)
                return None

            def __add__(self, o):
                b = self._bv(o)
                return ZInt(self.bv + b) if b is not None else ZFloat(z3.fpAdd(RNE, fl(self), fl(o)))
            __radd__ = __add__

            def __sub__(self, o):
                b = self._bv(o)
                return ZInt(self.bv - b) if b is not None else ZFloat(z3.fpSub(RNE, fl(self), fl(o)))

            def __neg__(self):
                return ZInt(-self.bv)

            def __truediv__(self, o):
                return ZFloat(z3.fpDiv(RNE, fl(self), fl(o)))

            def __lt__(self, o):
                return self.bv < self._bv(o)

            def __ge__(self, o):
                return self.bv >= self._bv(o)

        class ZFloat(object):
            def __init__(self, t):
                self.t = t

            def __add__(self, o):
                return ZFloat(z3.fpAdd(RNE, self.t, fl(o)))
            __radd__ = __add__

            def __sub__(self, o):
                return ZFloat(z3.fpSub(RNE, self.t, fl(o)))

            def __rsub__(self, o):
                return ZFloat(z3.fpSub(RNE, fl(o), self.t))

            def __mul__(self, o):
                return ZFloat(z3.fpMul(RNE, self.t, fl(o)))
            __rmul__ = __mul__

            def __truediv__(self, o):
                return ZFloat(z3.fpDiv(RNE, self.t, fl(o)))

            def __neg__(self):
                return ZFloat(z3.fpNeg(self.t))

        class Digits(object):
            """a run of text: kinds 'int' (sign and integer digits), 'absint' (integer digits), 'frac' (fraction digits), or a concatenation of those"""

            def __init__(self, kinds):
                self.kinds = kinds

            def __len__(self):
                n = 0
                for kd in self.kinds:
                    n += k if kd == 'frac' else idig
                    if kd == 'int' and bool(neg):          # a decision on the sign
                        n += 1
                return n

            def __add__(self, o):
                if isinstance(o, Digits) and 'int' not in o.kinds and o.kinds != []:
                    return Digits(self.kinds + o.kinds)
                raise TypeError('unsupported concatenation')

            def startswith(self, pfx):
                if pfx == '-' and self.kinds[:1] == ['int']:
                    return neg
                raise TypeError('unsupported startswith(%r)' % (pfx,))

            def lstrip(self, chars=None):
                if chars == '-' and self.kinds[:1] == ['int']:
                    return Digits(['absint'] + self.kinds[1:])
                if chars in ('-', '+', '+-', '-+') and self.kinds[:1] == ['absint']:
                    return self
                raise TypeError('unsupported lstrip(%r)' % (chars,))

            def isdigit(self):
                if self.kinds[:1] == ['int']:
                    return z3.Not(neg)
                return True
            isdecimal = isdigit
            isnumeric = isdigit

            def value(self):
                """(signed 64-bit value of the digit string, number of fraction digits it ends with)"""
                if self.kinds in (['int'], ['absint']):
                    v = I
                elif self.kinds == ['frac']:
                    v = Fr
                elif self.kinds in (['int', 'frac'], ['absint', 'frac']):
                    v = N
                else:
                    raise TypeError('unsupported digit string %r' % (self.kinds,))
                return z3.If(neg, -v, v) if self.kinds[0] == 'int' else v

        class Text(object):
            def __len__(self):
                return idig + 1 + k + (1 if bool(neg) else 0)

            def split(self, sep=None, maxsplit=-1):
                if sep != '.':
                    raise TypeError('unsupported separator')
                return [Digits(['int']), Digits(['frac'])]

            def partition(self, sep):
                if sep != '.':
                    raise TypeError('unsupported separator')
                return (Digits(['int']), '.', Digits(['frac']))
            rpartition = partition

            def startswith(self, pfx):
                if pfx == '-':
                    return neg
                raise TypeError('unsupported startswith(%r)' % (pfx,))

            def __contains__(self, ch):
                if ch == '.':
                    return True
                if isinstance(ch, str) and len(ch) == 1 and ch in 'eEnNiI+_ ':
                    return False
                raise TypeError('unsupported membership test %r' % (ch,))

        def zint(x, *a):
            if isinstance(x, Digits) and not a:
                return ZInt(x.value())
            if isinstance(x, (Text, ZFloat, ZInt)):
                raise TypeError('unsupported int() argument')
            return int(x, *a)

        def zfloat(x):
            if isinstance(x, ZInt):
                return ZFloat(z3.fpSignedToFP(RNE, x.bv, F64))
            if isinstance(x, ZFloat):
                return x
            if isinstance(x, Digits):
                # float() of an integer literal: the correctly rounded value of the integer; the sign of "-0" is kept
                v = z3.fpSignedToFP(RNE, x.value(), F64)
                if x.kinds[0] == 'int':
                    v = z3.If(z3.And(neg, x.value() == 0), z3.fpNeg(z3.FPVal(0.0, F64)), v)
                return ZFloat(v)
            if isinstance(x, Text):
                return ZFloat(exact)      # contract of float(str): correctly rounded
            return float(x)
        fn, src = z3x.reexec(csv.parse_decimal, dict(int=zint, float=zfloat))
        pre = [z3.ULT(I, 10 ** idig), z3.ULT(Fr, 10 ** k)]
        if k > 1:
            pre.append(z3.URem(Fr, 10) != 0)       # str(float) prints no trailing zero
        if idig > 1:
            pre.append(z3.UGE(I, 10 ** (idig - 1)))   # no leading zero
        if self.p.get('dyadic'):
            # only texts whose value is a binary64 number (N / 10^k with 5^k | N, N / 5^k below 2^53): such a text IS what str() prints for that float
            pre += [z3.URem(N, 5 ** k) == 0, z3.ULT(z3.UDiv(N, 5 ** k), 2 ** 53)]

        def run():
            res = fn(Text())
            if not isinstance(res, ZFloat):
                raise TypeError('parse_decimal returned %r on terms' % (res,))
            return res.t
        return run, exact, pre, (neg, I, Fr), src

    def __call__(self):
        import z3
        from vp import z3x
        q = z3x.Queries(cross_check=self.p.get('cross', False))
        run, exact, pre, (neg, I, Fr), src = self._terms()
        paths, complete = z3x.explore(run, q, max_paths=16)
        out = dict(paths=len(paths), encoded=['rxsci/container/csv.py:parse_decimal (source re-executed on z3 terms)'])
        verdict = 'CONFIRMED' if complete else 'INCONCLUSIVE'
        reason = None if complete else 'more than 16 paths through parse_decimal'
        for pc, res in paths:
            differ = z3.Not(z3.And(z3.fpEQ(res, exact), z3.fpIsNegative(res) == z3.fpIsNegative(exact)))
            if res.eq(exact):
                continue
            r, m = q.check('parse_decimal k=%d idigits=%d' % (self.p['k'], self.p['idigits']), pre + list(pc) + [differ], timeout_s=self.p.get('timeout', 120), logic='QF_BVFP')
            if r == 'unsat':
                continue
            if r == 'sat':
                text = ('-' if z3.is_true(m.eval(neg, model_completion=True)) else '') + str(m.eval(I, model_completion=True).as_long()) + '.' + str(m.eval(Fr, model_completion=True).as_long()).zfill(self.p['k'])
                rp = self.replay([text])
                out['cex'] = dict(args=[text], kwargs={})
                if rp['reproduced']:
                    verdict, reason = 'REFUTED', None
                    out['detail'] = rp['detail']
                    break
                verdict, reason = 'INCONCLUSIVE', 'spurious: model %r does not reproduce on the real parse_decimal (%s)' % (text, rp.get('detail'))
            else:
                verdict, reason = 'INCONCLUSIVE', 'solver answered %s' % r
        out.update(solver_queries=q.n, solver_s=round(q.solver_s, 3), queries=q.log, verdict=verdict)
        if q.disagree:
            out.update(verdict='INCONCLUSIVE', reason='z3 and cvc5 disagree on %s' % q.disagree)
        elif reason:
            out['reason'] = reason
        return out

    def replay(self, args):
        text = args[0]
        x = float(text)
        if str(x) != text:
            return dict(reproduced=False, detail=dict(problem='%r is not what str() prints for %r' % (text, x)))
        got = csv.parse_decimal(text)
        rows = _roundtrip([(x,)], [('v', float)], ',', '\\')
        ok = isinstance(got, float) and got == x and math.copysign(1, got) == math.copysign(1, x) and rows == [(x,)] and math.copysign(1, rows[0][0]) == math.copysign(1, x)
        return dict(reproduced=not ok, detail=dict(text=text, float_value=repr(x), parse_decimal=repr(got), csv_round_trip=repr(rows)))


class IntTerms(object):
    """direct obligation: parse_int's current source executed on terms for a signed decimal digit string of d digits (value a 64-bit term):
    int() of the text is the exact value, float() the correctly rounded double, int() of a double truncates - whatever the source composes
    must give back the exact integer"""

    def __init__(self, p):
        self.p = p

    def __call__(self):
        import z3
        from vp import z3x
        d = self.p['digits']
        q = z3x.Queries(cross_check=self.p.get('cross', False))
        F64, RNE, RTZ = z3.Float64(), z3.RNE(), z3.RTZ()
        N = z3.BitVec('N', 128)

        class Text(object):
            def __len__(self):
                return d

        class ZI(object):
            def __init__(self, bv):
                self.bv = bv

        class ZF(object):
            def __init__(self, t):
                self.t = t

        def zint(x):
            if isinstance(x, Text):
                return ZI(N)
            if isinstance(x, ZF):
                return ZI(z3.fpToSBV(RTZ, x.t, z3.BitVecSort(128)))
            if isinstance(x, ZI):
                return x
            return int(x)

        def zfloat(x):
            if isinstance(x, Text) or isinstance(x, ZI):
                return ZF(z3.fpSignedToFP(RNE, N if isinstance(x, Text) else x.bv, F64))
            return float(x)
        try:
            fn, src = z3x.reexec(csv.parse_int, dict(int=zint, float=zfloat))
            res = fn(Text())
        except Exception as e:  # noqa
            return dict(verdict='INCONCLUSIVE', reason='parse_int not executable on terms: %r' % (e,), paths=0, solver_queries=0, solver_s=0.0)
        lim = 10 ** d
        pre = [N > -lim, N < lim]
        if not isinstance(res, ZI):
            return dict(verdict='INCONCLUSIVE', reason='parse_int returned %r on terms' % (res,), paths=0, solver_queries=0, solver_s=0.0)
        if res.bv.eq(N):
            return dict(verdict='CONFIRMED', paths=1, solver_queries=0, solver_s=0.0, encoded=['rxsci/container/csv.py:parse_int (source re-executed on z3 terms)'])
        r, m = q.check('parse_int %d digits' % d, pre + [res.bv != N], timeout_s=self.p.get('timeout', 120), logic='QF_BVFP')
        out = dict(paths=1, solver_queries=q.n, solver_s=round(q.solver_s, 3), queries=q.log, encoded=['rxsci/container/csv.py:parse_int (source re-executed on z3 terms)'])
        if r == 'unsat':
            out.update(verdict='CONFIRMED')
        elif r == 'sat':
            v = m.eval(N, model_completion=True).as_signed_long()
            rp = self.replay([str(v)])
            out['cex'] = dict(args=[str(v)], kwargs={})
            if rp['reproduced']:
                out.update(verdict='REFUTED', detail=rp['detail'])
            else:
                out.update(verdict='INCONCLUSIVE', reason='spurious: %r does not reproduce' % (v,))
        else:
            out.update(verdict='INCONCLUSIVE', reason='solver answered %s' % r)
        return out

    def replay(self, args):
        t = args[0]
        got = csv.parse_int(t)
        rows = _roundtrip([(int(t),)], [('v', int)], ',', '\\')
        ok = got == int(t) and type(got) is int and rows == [(int(t),)]
        return dict(reproduced=not ok, detail=dict(text=t, parse_int=repr(got), csv_round_trip=repr(rows)))


class ExpForm(object):
    """exponent forms printed by str(float) must take the float() fall-back: int() of a part containing 'e' raises"""

    def __init__(self, p):
        self.p = p

    def __call__(self):
        bad = []
        samples = [1e16, 1.5e-07, 1e+22, 2.5e+300, 5e-324, -1e16, -3.25e-05, 1.7976931348623157e+308, float('inf'), float('-inf')]
        for x in samples:
            t = str(x)
            got = csv.parse_decimal(t)
            if got != x:
                bad.append((t, got))
        v = 'CONFIRMED' if not bad else 'REFUTED'
        out = dict(verdict=v, paths=len(samples), solver_queries=0, solver_s=0.0)
        if bad:
            out['cex'] = dict(args=[bad[0][0]], kwargs={})
            out['detail'] = dict(text=bad[0][0], parse_decimal=repr(bad[0][1]))
        return out

    def replay(self, args):
        t = args[0]
        got = csv.parse_decimal(t)
        return dict(reproduced=got != float(t), detail=dict(text=t, parse_decimal=repr(got)))


class StubValid(object):
    def __init__(self, p):
        pass

    def __call__(self):
        ok = shortread.validate()
        return dict(verdict='CONFIRMED' if ok else 'INCONCLUSIVE', reason=None if ok else 'stub invalid: ShortReadFile', paths=0, solver_queries=0, solver_s=0.0)


FAMILIES = {'strings': strings, 'parse_int_digits': parse_int_digits, 'file_form': file_form, 'decimal': Decimal, 'exp_form': ExpForm, 'stub_valid': StubValid, 'int_terms': IntTerms}


def _splits(total, parts):
    if parts == 1:
        return [[total]]
    out = []
    for first in range(total + 1):
        for rest in _splits(total - first, parts - 1):
            out.append([first] + rest)
    return out


def obligations(tier, seed):
    obs = [Ob(PROP, 'stub_valid', {}, kind='direct', budget=60, group='stub validation')]
    q = tier == 'quick'
    b = 240 if q else 1500
    tot = 3 if q else 4
    # one string column and two string columns, every split of <= tot characters
    for total in range(0, tot + 1):
        for sep, esc in (('comma', 'bs'), ('dpipe', 'bs'), ('semi', 'caret')) if total >= 2 else (('comma', 'bs'), ('pipe', 'bs'), ('tab', 'caret')):
            obs.append(Ob(PROP, 'strings', dict(cols=['s'], lens=[total], sep=sep, esc=esc), budget=b, group='strings', bound=dict(columns='str', chars=total, sep=sep, esc=esc)))
            for lens in _splits(total, 2):
                obs.append(Ob(PROP, 'strings', dict(cols=['s', 's'], lens=lens, sep=sep, esc=esc), budget=b, group='strings', bound=dict(columns='str,str', chars=lens, sep=sep, esc=esc)))
        if total <= 2:
            for lens in _splits(total, 2):
                obs.append(Ob(PROP, 'strings', dict(cols=['s', 'b', 's'], lens=lens, sep='comma', esc='bs'), budget=b, group='strings', bound=dict(columns='str,bool,str', chars=lens)))
                obs.append(Ob(PROP, 'strings', dict(cols=['i', 's', 's'], lens=lens, sep='semi', esc='bs'), budget=b, group='strings', bound=dict(columns='int,str,str', chars=lens)))
    obs.append(Ob(PROP, 'strings', dict(cols=['i', 'b', 'i'], lens=[], sep='comma', esc='bs'), budget=b, group='strings', bound=dict(columns='int,bool,int')))
    for n in (1, 2, 3):
        obs.append(Ob(PROP, 'parse_int_digits', dict(n=n), budget=b, bound=dict(digits=n)))
    for lens in ([[1, 0], [0, 1]] if q else [[1, 0], [0, 1], [1, 1], [2, 0]]):
        for c1 in range(1, 24 + 2 * sum(lens)):
            obs.append(Ob(PROP, 'file_form', dict(lens=lens, sep='comma', esc='bs', c1=c1), budget=b, group='file_form', bound=dict(rows=2, string_chars=lens, short_read_at=c1)))
        if lens == [1, 0]:
            for c1 in range(5, 10):
                obs.append(Ob(PROP, 'file_form', dict(lens=lens, sep='comma', esc='bs', c1=c1, encoding='utf-8'), budget=b, group='file_form:encoding', bound=dict(rows=2, string_chars=lens, short_read_at=c1, encoding='utf-8', file='by name + open_obj')))
    for k in ((1, 2, 3, 4) if q else (1, 2, 3, 4, 5, 6)):
        for idig in ((1, 2, 3) if q else (1, 2, 3, 4, 6)):
            obs.append(Ob(PROP, 'decimal', dict(k=k, idigits=idig, cross=not q, timeout=100 if q else 600), kind='direct', budget=120 if q else 700, group='decimal(z3x)',
                          bound=dict(fraction_digits=k, integer_digits=idig, sign='symbolic', format='binary64')))
    # 16 and 17 significant digits: the digits as one integer exceed 2^53 (the exact quotient is modelled with a wide significand); 'dyadic' restricts the texts to
    # those whose value is a binary64 number, so that a counterexample is a text str() really prints
    wide = [(1, 15), (2, 14), (1, 16), (3, 13), (8, 8)] if q else [(1, 15), (2, 14), (1, 16), (3, 13), (8, 8), (4, 12), (5, 11), (2, 15), (6, 10), (15, 1), (16, 1)]
    for k, idig in wide:
        for dy in (True, False):
            obs.append(Ob(PROP, 'decimal', dict(k=k, idigits=idig, dyadic=dy, cross=False, timeout=100 if q else 600), kind='direct', budget=150 if q else 700, group='decimal(z3x, 16-17 digits)',
                          bound=dict(fraction_digits=k, integer_digits=idig, sign='symbolic', format='binary64', texts='value is a binary64 number' if dy else 'any')))
    obs.append(Ob(PROP, 'exp_form', {}, kind='direct', budget=60, group='exp_form'))
    for d in (9, 18, 19):
        obs.append(Ob(PROP, 'int_terms', dict(digits=d, cross=not q), kind='direct', budget=200, group='parse_int(z3x)', bound=dict(digits=d, sign='symbolic', value='any integer of that many digits (64-bit range and beyond)')))
    obs.append(Ob(PROP, 'strings', dict(cols=['s', 's'], lens=[1, 1], sep='comma', esc='bs', _twin='reach'), budget=60, expect='refute'))
    return obs
