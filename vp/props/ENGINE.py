"""Engine self-tests: lemmas that must be CONFIRMED and false lemmas that must
be REFUTED (with a reproducing input) before any verdict of a run is believed.
They pin the CrossHair repairs of vp/chfix.py and the models rxsci code relies on."""
from array import array
from vp.engine import Ob
from vp.harness import mk

PROP = 'ENGINE'


def _str_lemma(p):
    which = p['lemma']

    def body(a):
        s = a[0]
        if which == 'concat_slice':
            return (s + 'a')[:-1] == s
        if which == 'join_split':
            return ','.join(s.split(',')) == s
        if which == 'replace_inv':
            return s.replace('"', '\\"').replace('\\"', '"') == s or '\\' in s
        if which == 'quote_strip':
            t = '"' + s + '"'
            return t[1:-1] == s and t[0] == '"' and t[-1] == '"'
        if which == 'false_concat':      # false: must be refuted
            return (s + 'a')[1:] == s
        if which == 'false_split':       # false: must be refuted
            return len(s.split(',')) == 1
        raise ValueError(which)
    return mk('lemma_' + which, [('s', 'str')], ['len(s) <= 3'], body)


def _list_lemma(p):
    which = p['lemma']

    def body(a):
        x, y, z = a
        l = [x, y]
        if which == 'list_view':
            return (l + [z])[:-1] == l and (l + [z])[2] == z
        if which == 'array_q':
            q = array('q')
            q.append(0)
            q.append(0)
            q[1] = x
            q[0] = y
            return q[1] == x and q[0] == y and len(q) == 2
        if which == 'array_B':
            b = array('B')
            b.append(2)
            b[0] = 1 if x > 0 else 0
            return (b[0] == 1) == (x > 0)
        if which == 'extend_iter':
            # growth idioms of table-like code: extend with a repeated array / bytes / a generator / a range, then indexed writes
            q = array('q')
            q.extend(array('q', [0]) * 3)
            b = bytearray()
            b.extend(bytes([2]) * 3)
            free = []
            free.extend(range(5, 2, -1))
            free.extend(i for i in (y, z))
            q[1] = x
            b[2] = 1 if x > 0 else 0
            return q[1] == x and q[0] == 0 and len(q) == 3 and (b[2] == 1) == (x > 0) and b[0] == 2 and free[0] == 5 and free[4] == z and len(free) == 5 and free.pop() == z
        if which == 'false_list':
            return (l + [z])[1:] == l
        raise ValueError(which)
    return mk('lemma_' + which, [('x', 'int'), ('y', 'int'), ('z', 'int')], [], body)


FAMILIES = {'str_lemma': _str_lemma, 'list_lemma': _list_lemma}


def obligations(tier, seed):
    obs = []
    for l in ('concat_slice', 'join_split', 'replace_inv', 'quote_strip'):
        obs.append(Ob(PROP, 'str_lemma', dict(lemma=l), budget=60))
    for l in ('false_concat', 'false_split'):
        obs.append(Ob(PROP, 'str_lemma', dict(lemma=l), budget=60, expect='refute'))
    for l in ('list_view', 'array_q', 'array_B', 'extend_iter'):
        obs.append(Ob(PROP, 'list_lemma', dict(lemma=l), budget=60))
    obs.append(Ob(PROP, 'list_lemma', dict(lemma='false_list'), budget=60, expect='refute'))
    return obs
