"""C07 time_split sessions respect active/inactive timeouts and closing items."""
import rxsci as rs
from vp import drivers as D
from vp import refsem as R
from vp.engine import Ob
from vp.harness import mk, fail
from vp.catalog import _lsum

PROP = 'C07'
META = dict(
    explanation='Whole runs of the real time_split under with_memory_store on N symbolic items (timestamp, closing flag): timestamps are symbolic non-decreasing integers (ticks), '
                'both timeouts are symbolic integers in 0..8 (a zero timeout is legal: every item then opens a window) or None, include_closing_item both; compared with the reference interpreter that transcribes the statement '
                '(expiry test first - at least active_timeout after the window reference or at least inactive_timeout after the previous item - then the closing test; the reference timestamp is that of the first item '
                'or of the preceding closing item). Comparison is on the item -> window partition and its order (empty windows around closing items are neither required nor forbidden by the statement and are dropped on both sides). '
                'Also under group_by with 2 interleaved keys. The operator only uses >= and + on timestamps, so integers stand for datetime/timedelta; a further family uses real datetime / timedelta objects with solver-chosen sub-day and multi-day values, and one keeps 9 / 17 keys live at once.',
    bounds=dict(quick='N <= 4 items, timeouts symbolic in 0..8 or None, any non-decreasing int timestamps, closing flags symbolic; group_by: N <= 4 with 2 keys',
                thorough='N <= 6 items (root), N <= 5 under group_by'),
    outside='datetime/timedelta objects themselves (ordered-group abstraction); decreasing timestamps; N above the bound',
    assumptions=['timestamps form an ordered abelian group: ints stand in for datetime/timedelta', 'reference interpreter vp/refsem.py transcribes the property statement'],
    stubs=[],
)


def _nonempty(tr):
    return [(t, v) for t, v in tr if v != 0]   # digest of the empty list is 0 (len 0, no items)


def runs(p):
    """params: n, act ('sym'|None), inact ('sym'|None), closing (bool), include (bool), ctx root|group"""
    n = p['n']
    sig = []
    pre = []
    for i in range(n):
        sig.append(('t%d' % i, 'int'))
        if p['closing']:
            sig.append(('c%d' % i, 'bool'))
        if p['ctx'] == 'group':
            sig.append(('k%d' % i, 'bool'))
    pre += ['t%d <= t%d' % (i, i + 1) for i in range(n - 1)]
    if n:
        pre.append('0 <= t0')
    if p['act'] == 'sym':
        sig.append(('act', 'int'))
        pre.append('%d <= act <= 8' % (1 if p.get('nozero') else 0))
    if p['inact'] == 'sym':
        sig.append(('inact', 'int'))
        pre.append('%d <= inact <= 8' % (1 if p.get('nozero') else 0))
    names = [a for a, _ in sig]

    def body(a):
        d = dict(zip(names, a))
        act = d.get('act') if p['act'] == 'sym' else p['act']
        inact = d.get('inact') if p['inact'] == 'sym' else p['inact']
        items = [(d['t%d' % i], d.get('c%d' % i, False), d.get('k%d' % i, False)) for i in range(n)]
        tm = lambda i: i[0]
        cl = (lambda i: i[1]) if p['closing'] else None
        inner_real = [rs.ops.map(lambda i: i[0] * 2 + (1 if i[1] else 0)), rs.data.to_list(), rs.ops.map(_lsum)]
        inner_ref = [R.Map(lambda i: i[0] * 2 + (1 if i[1] else 0)), R.Scan(lambda acc, i: acc + [i], list, reduce=True), R.Map(_lsum)]
        real = [rs.data.time_split(tm, active_timeout=act, inactive_timeout=inact, closing_mapper=cl,
                                   include_closing_item=p['include'], pipeline=inner_real)]
        ref = [R.TimeSplit(tm, act, inact, cl, p['include'], inner_ref)]
        if p.get('after'):
            # a completion-triggered consumer after time_split on the same key: the open window must be flushed before the key's completion is forwarded
            real = real + [rs.ops.filter(lambda v: v != 0), rs.data.to_list(), rs.ops.map(_lsum)]
            ref = ref + [R.Filter(lambda v: v != 0), R.Scan(lambda acc, i: acc + [i], list, reduce=True), R.Map(_lsum)]
        if p['ctx'] == 'group':
            real = [rs.ops.group_by(lambda i: 1 if i[2] else 0, real)]
            ref = [R.GroupBy(lambda i: 1 if i[2] else 0, ref)]
        got = _nonempty(D.run_timed_after_abort(items, real, p['retry']) if p.get('retry') is not None else D.run_timed(items, real))
        exp = _nonempty(R.run(ref, items))
        if got == exp:
            return True
        return fail(items=items, active=act, inactive=inact, observed=got, expected=exp)
    return mk('time_split_runs', sig, pre, body)


def datetimes(p):
    """real datetime / timedelta objects (not the integer abstraction): each item's timestamp and both timeouts are chosen by the solver from sets that contain
    sub-day and multi-day values (23:59:59 -> next day, gaps of exactly one day, timeouts of one day and more)"""
    from datetime import datetime, timedelta
    n = p['n']
    OFF = [0, 3, 86399, 86403, 200000]            # seconds after the base instant (2020-01-02 00:00:01)
    TO = [None, timedelta(seconds=3), timedelta(days=1), timedelta(days=1, minutes=10)]
    sig = [('t%d' % i, 'int') for i in range(n)] + [('inact', 'int')]
    pre = ['0 <= t%d <= %d' % (i, len(OFF) - 1) for i in range(n)] + ['t%d <= t%d' % (i, i + 1) for i in range(n - 1)] + ['0 <= inact <= %d' % (len(TO) - 1)]

    def sel(x, k):
        for j in range(k - 1):
            if x <= j:
                return j
        return k - 1

    def body(a):
        base = datetime(2020, 1, 2, 0, 0, 1)
        ts = [base + timedelta(seconds=OFF[sel(a[i], len(OFF))]) for i in range(n)]
        act, inact = TO[p['act']], TO[sel(a[n], len(TO))]
        items = [(t, i) for i, t in enumerate(ts)]
        inner_real = [rs.ops.map(lambda i: i[1]), rs.data.to_list(), rs.ops.map(lambda l: tuple(l))]
        inner_ref = [R.Map(lambda i: i[1]), R.Scan(lambda acc, i: acc + [i], list, reduce=True), R.Map(lambda l: tuple(l))]
        real = [rs.data.time_split(lambda i: i[0], active_timeout=act, inactive_timeout=inact, pipeline=inner_real)]
        ref = [R.TimeSplit(lambda i: i[0], act, inact, None, True, inner_ref)]
        got = [(t, v) for t, v in D.run_timed(items, real) if v != ()]
        exp = [(t, v) for t, v in R.run(ref, items) if v != ()]
        return got == exp or fail(timestamps=[str(t) for t in ts], active=str(act), inactive=str(inact), observed=got, expected=exp)
    return mk('time_split_datetimes', sig, pre, body)


def many_keys(p):
    """K keys live at once under group_by (K crosses cache capacities 8 / 16): key 0 gets two items, every other key one, then key 0 again; the inactive timeout is symbolic"""
    K = p['k']

    def body(a):
        inact, d = a
        items = [(0, 0), (0, 2)] + [(k, 3) for k in range(1, K)] + [(0, 2 + d), (K - 1, 4 + d), (0, 9 + d)]
        inner_real = [rs.ops.map(lambda i: i[1]), rs.data.to_list(), rs.ops.map(lambda l: tuple(l))]
        inner_ref = [R.Map(lambda i: i[1]), R.Scan(lambda acc, i: acc + [i], list, reduce=True), R.Map(lambda l: tuple(l))]
        real = [rs.ops.group_by(lambda i: i[0], [rs.data.time_split(lambda i: i[1], inactive_timeout=inact, pipeline=inner_real)])]
        ref = [R.GroupBy(lambda i: i[0], [R.TimeSplit(lambda i: i[1], None, inact, None, True, inner_ref)])]
        got = D.run_mux(items, real)
        exp = [v for _, v in R.run(ref, items)]
        from vp.props.common import multiset_eq
        return multiset_eq(got, exp) or fail(keys=K, inactive=inact, observed=got, expected=exp)
    return mk('time_split_many_keys', [('inact', 'int'), ('d', 'int')], ['1 <= inact <= 8', '0 <= d <= 4'], body)


FAMILIES = {'runs': runs, 'datetimes': datetimes, 'many_keys': many_keys}


def obligations(tier, seed):
    obs = []
    q = tier == 'quick'
    nmax = 4 if q else 6
    for act in ('sym', None):
        for inact in ('sym', None):
            for closing in (False, True):
                for include in ((True, False) if closing else (True,)):
                    for n in range(0, nmax + 1):
                        if q and n in (0, 1) and (closing or act is None):
                            continue
                        if closing and n > (3 if q else 5):
                            continue
                        obs.append(Ob(PROP, 'runs', dict(n=n, act=act, inact=inact, closing=closing, include=include, ctx='root'),
                                      budget=400 if q else 1800, bound=dict(items=n, timeouts='0..8 symbolic' if 'sym' in (act, inact) else None, timestamps='any non-decreasing ints')))
    for closing, include in ((False, True), (True, True), (True, False)):
        for n in ((3,) if q else (3, 4)):
            obs.append(Ob(PROP, 'runs', dict(n=n, act='sym', inact='sym', closing=closing, include=include, ctx='group', nozero=closing), budget=400 if q else 1800,
                          bound=dict(items=n, groups=2)))
    for k in (1, 2):
        obs.append(Ob(PROP, 'runs', dict(n=3, act='sym', inact='sym', closing=False, include=True, ctx='root', retry=k, nozero=True), budget=400 if q else 1800, group='after an aborted subscription', bound=dict(items=3, first_subscription_aborted_after=k)))
    for ctx in ('root', 'group'):
        obs.append(Ob(PROP, 'runs', dict(n=3, act='sym', inact='sym', closing=False, include=True, ctx=ctx, after=True), budget=400 if q else 1800, bound=dict(items=3, ctx=ctx, consumer_after_time_split=True)))
    for n in ((2, 3) if q else (2, 3, 4)):
      for act in (0, 1, 2, 3):
        obs.append(Ob(PROP, 'datetimes', dict(n=n, act=act), budget=400 if q else 1800, group='real datetime / timedelta values', bound=dict(items=n, timestamps='solver-chosen from a set with sub-day and multi-day gaps', timeouts='3 s .. 2 days or None')))
    for k in ((9, 17) if q else (9, 10, 17, 33, 65)):
        obs.append(Ob(PROP, 'many_keys', dict(k=k), budget=400 if q else 1800, group='many live keys', bound=dict(live_keys=k, inactive_timeout='1..8 symbolic')))
    obs.append(Ob(PROP, 'runs', dict(n=3, act='sym', inact='sym', closing=True, include=True, ctx='root', _twin='reach'), budget=60, expect='refute'))
    return obs
