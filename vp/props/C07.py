"""C07 time_split sessions respect active/inactive timeouts and closing items."""
import rxsci as rs
from vp import drivers as D
from vp import refsem as R
from vp.engine import Ob
from vp.harness import mk, fail
from vp.catalog import _lsum

PROP = 'C07'
META = dict(
    explanation='Whole runs of the real time_split under with_memory_store on N symbolic items (timestamp, closing flag): timestamps are symbolic non-decreasing integers (ticks), '
                'both timeouts are symbolic integers in 0..8 (a zero timeout is legal: every item then opens a window) or None, include_closing_item both; compared with the reference interpreter that transcribes the statement '
                '(expiry test first - at least active_timeout after the window reference or at least inactive_timeout after the previous item - then the closing test; the reference timestamp is that of the first item '
                'or of the preceding closing item). Comparison is on the item -> window partition and its order (empty windows around closing items are neither required nor forbidden by the statement and are dropped on both sides). '
                'Also under group_by with 2 interleaved keys. The operator only uses >= and + on timestamps, so integers stand for datetime/timedelta.',
    bounds=dict(quick='N <= 4 items, timeouts symbolic in 0..8 or None, any non-decreasing int timestamps, closing flags symbolic; group_by: N <= 4 with 2 keys',
                thorough='N <= 6 items (root), N <= 5 under group_by'),
    outside='datetime/timedelta objects themselves (ordered-group abstraction); decreasing timestamps; N above the bound',
    assumptions=['timestamps form an ordered abelian group: ints stand in for datetime/timedelta', 'reference interpreter vp/refsem.py transcribes the property statement'],
    stubs=[],
)


def _nonempty(tr):
    return [(t, v) for t, v in tr if v != 0]   # digest of the empty list is 0 (len 0, no items)


def runs(p):
    """params: n, act ('sym'|None), inact ('sym'|None), closing (bool), include (bool), ctx root|group"""
    n = p['n']
    sig = []
    pre = []
    for i in range(n):
        sig.append(('t%d' % i, 'int'))
        if p['closing']:
            sig.append(('c%d' % i, 'bool'))
        if p['ctx'] == 'group':
            sig.append(('k%d' % i, 'bool'))
    pre += ['t%d <= t%d' % (i, i + 1) for i in range(n - 1)]
    if n:
        pre.append('0 <= t0')
    if p['act'] == 'sym':
        sig.append(('act', 'int'))
        pre.append('%d <= act <= 8' % (1 if p.get('nozero') else 0))
    if p['inact'] == 'sym':
        sig.append(('inact', 'int'))
        pre.append('%d <= inact <= 8' % (1 if p.get('nozero') else 0))
    names = [a for a, _ in sig]

    def body(a):
        d = dict(zip(names, a))
        act = d.get('act') if p['act'] == 'sym' else p['act']
        inact = d.get('inact') if p['inact'] == 'sym' else p['inact']
        items = [(d['t%d' % i], d.get('c%d' % i, False), d.get('k%d' % i, False)) for i in range(n)]
        tm = lambda i: i[0]
        cl = (lambda i: i[1]) if p['closing'] else None
        inner_real = [rs.ops.map(lambda i: i[0] * 2 + (1 if i[1] else 0)), rs.data.to_list(), rs.ops.map(_lsum)]
        inner_ref = [R.Map(lambda i: i[0] * 2 + (1 if i[1] else 0)), R.Scan(lambda acc, i: acc + [i], list, reduce=True), R.Map(_lsum)]
        real = [rs.data.time_split(tm, active_timeout=act, inactive_timeout=inact, closing_mapper=cl,
                                   include_closing_item=p['include'], pipeline=inner_real)]
        ref = [R.TimeSplit(tm, act, inact, cl, p['include'], inner_ref)]
        if p.get('after'):
            # a completion-triggered consumer after time_split on the same key: the open window must be flushed before the key's completion is forwarded
            real = real + [rs.ops.filter(lambda v: v != 0), rs.data.to_list(), rs.ops.map(_lsum)]
            ref = ref + [R.Filter(lambda v: v != 0), R.Scan(lambda acc, i: acc + [i], list, reduce=True), R.Map(_lsum)]
        if p['ctx'] == 'group':
            real = [rs.ops.group_by(lambda i: 1 if i[2] else 0, real)]
            ref = [R.GroupBy(lambda i: 1 if i[2] else 0, ref)]
        got = _nonempty(D.run_timed_after_abort(items, real, p['retry']) if p.get('retry') is not None else D.run_timed(items, real))
        exp = _nonempty(R.run(ref, items))
        if got == exp:
            return True
        return fail(items=items, active=act, inactive=inact, observed=got, expected=exp)
    return mk('time_split_runs', sig, pre, body)


FAMILIES = {'runs': runs}


def obligations(tier, seed):
    obs = []
    q = tier == 'quick'
    nmax = 4 if q else 6
    for act in ('sym', None):
        for inact in ('sym', None):
            for closing in (False, True):
                for include in ((True, False) if closing else (True,)):
                    for n in range(0, nmax + 1):
                        if q and n in (0, 1) and (closing or act is None):
                            continue
                        if closing and n > (3 if q else 5):
                            continue
                        obs.append(Ob(PROP, 'runs', dict(n=n, act=act, inact=inact, closing=closing, include=include, ctx='root'),
                                      budget=400 if q else 1800, bound=dict(items=n, timeouts='0..8 symbolic' if 'sym' in (act, inact) else None, timestamps='any non-decreasing ints')))
    for closing, include in ((False, True), (True, True), (True, False)):
        for n in ((3,) if q else (3, 4)):
            obs.append(Ob(PROP, 'runs', dict(n=n, act='sym', inact='sym', closing=closing, include=include, ctx='group', nozero=closing), budget=400 if q else 1800,
                          bound=dict(items=n, groups=2)))
    for k in (1, 2):
        obs.append(Ob(PROP, 'runs', dict(n=3, act='sym', inact='sym', closing=False, include=True, ctx='root', retry=k, nozero=True), budget=400 if q else 1800, group='after an aborted subscription', bound=dict(items=3, first_subscription_aborted_after=k)))
    for ctx in ('root', 'group'):
        obs.append(Ob(PROP, 'runs', dict(n=3, act='sym', inact='sym', closing=False, include=True, ctx=ctx, after=True), budget=400 if q else 1800, bound=dict(items=3, ctx=ctx, consumer_after_time_split=True)))
    obs.append(Ob(PROP, 'runs', dict(n=3, act='sym', inact='sym', closing=True, include=True, ctx='root', _twin='reach'), budget=60, expect='refute'))
    return obs
