"""C04 group_by partitions the stream by key, preserving order within each group."""
from vp.engine import Ob
from vp.props.common import refdiff

PROP = 'C04'
META = dict(
    explanation='Whole runs of the real group_by(key_mapper, inner) under with_memory_store on N symbolic integer items are compared, event by event (values, order and the source position '
                'at which each output appears), with the reference interpreter: one group per distinct key value (by ==), each group sees its complete subsequence in source order, '
                'streaming results are emitted as produced and groups still open at parent completion complete in order of first appearance. Key mappers return equal-but-not-identical objects '
                '(fresh tuples, 10**20+k, floats, strings built at run time) and distinct keys with equal hashes (-1 / -2). Inner pipelines: to_list digest (order-sensitive, injective linear form), identity (streaming), scan, count->last; '
                'group_by nested in group_by / roll / split.',
    bounds=dict(quick='N <= 4 items (any ints), key mappers with 2 or 3 distinct keys', thorough='N <= 6 items (N <= 5 for 3 keys / nested)'),
    outside='more distinct keys than 3; key mappers raising or returning unhashable values; N above the bound',
    assumptions=['reference interpreter vp/refsem.py transcribes the property statement', 'synchronous single-threaded delivery'],
    stubs=[],
)

INNER = {'to_list': [['to_list_sum']], 'identity': [['identity']], 'scan': [['scan_add']], 'count_last': [['count'], ['last']]}


def runs(p):
    q = dict(p)
    g = ['group', p['km'], INNER[p['inner']]]
    ctx = p['ctx']
    if ctx == 'root':
        q['desc'] = [g]
    elif ctx == 'after':        # a completion-triggered consumer after group_by on the same key: groups must be flushed before the key's completion is forwarded
        q['desc'] = [g, ['to_list_sum']]
    elif ctx == 'in_group':
        q['desc'] = [['group', 'mod3', [['group', 'mod2', INNER[p['inner']]]]]]
    elif ctx == 'in_roll':
        q['desc'] = [['roll', 2, 2, [g]]]
    elif ctx == 'in_roll31':
        q['desc'] = [['roll', 3, 1, [g]]]
    elif ctx == 'in_split':
        q['desc'] = [['split', 'div3', [g]]]
    # order between different lifetimes inside one source event is specified only for the completion flush of group_by itself
    q['mode'] = 'exact' if ctx == 'root' else 'per_t'
    return refdiff(q)


FAMILIES = {'runs': runs}


def obligations(tier, seed):
    obs = []
    q = tier == 'quick'
    nmax = 4 if q else 6
    for km in ('mod2', 'tup2', 'big2', 'flt2', 'str2', 'neg2', 'negt', 'mod3', 'tup3'):
        for inner in ('to_list', 'identity'):
            for n in range(0, nmax + 1):
                if km in ('mod3', 'tup3') and n > (4 if q else 5):
                    continue
                if q and inner == 'identity' and n not in (3, 4):
                    continue
                obs.append(Ob(PROP, 'runs', dict(ctx='root', km=km, inner=inner, n=n), budget=120 if q else 900,
                              bound=dict(items=n, values='any int', key_mapper=km)))
    for inner in ('scan', 'count_last'):
        obs.append(Ob(PROP, 'runs', dict(ctx='root', km='tup2', inner=inner, n=4 if q else 5), budget=120 if q else 900, bound=dict(items=4 if q else 5)))
    for ctx in ('in_group', 'in_roll', 'in_roll31', 'in_split', 'after'):
        for n in ((3, 4) if q else (3, 4, 5)):
            if q and ctx in ('in_group', 'in_split') and n == 4:
                continue
            obs.append(Ob(PROP, 'runs', dict(ctx=ctx, km='tup2', inner='to_list', n=n), budget=150 if q else 900, bound=dict(items=n, ctx=ctx)))
    for k in (1, 2):
        obs.append(Ob(PROP, 'runs', dict(ctx='root', km='tup2', inner='to_list', n=3, retry=k), budget=120 if q else 900, group='after an aborted subscription', bound=dict(items=3, first_subscription_aborted_after=k)))
    obs.append(Ob(PROP, 'runs', dict(ctx='root', km='tup2', inner='to_list', n=3, _twin='reach'), budget=60, expect='refute'))
    return obs
