"""C04 group_by partitions the stream by key, preserving order within each group."""
from vp.engine import Ob
from vp.props.common import refdiff

PROP = 'C04'
META = dict(
    explanation='Whole runs of the real group_by(key_mapper, inner) under with_memory_store on N symbolic integer items are compared, event by event (values, order and the source position '
                'at which each output appears), with the reference interpreter: one group per distinct key value (by ==), each group sees its complete subsequence in source order, '
                'streaming results are emitted as produced and groups still open at parent completion complete in order of first appearance. Key mappers return equal-but-not-identical objects '
                '(fresh tuples, 10**20+k, floats, strings built at run time) and distinct keys with equal hashes (-1 / -2). Inner pipelines: to_list digest (order-sensitive, injective linear form), identity (streaming), scan, count->last; '
                'group_by nested in group_by / roll / split.',
    bounds=dict(quick='N <= 4 items (any ints), key mappers with 2 or 3 distinct keys', thorough='N <= 6 items (N <= 5 for 3 keys / nested)'),
    outside='more distinct keys than 3; key mappers raising or returning unhashable values; N above the bound',
    assumptions=['reference interpreter vp/refsem.py transcribes the property statement', 'synchronous single-threaded delivery'],
    stubs=[],
)

INNER = {'to_list': [['to_list_sum']], 'identity': [['identity']], 'scan': [['scan_add']], 'count_last': [['count'], ['last']]}


def runs(p):
    q = dict(p)
    g = ['group', p['km'], INNER[p['inner']]]
    ctx = p['ctx']
    if ctx == 'root':
        q['desc'] = [g]
    elif ctx == 'after':        # a completion-triggered consumer after group_by on the same key: groups must be flushed before the key's completion is forwarded
        q['desc'] = [g, ['to_list_sum']]
    elif ctx == 'in_group':
        q['desc'] = [['group', 'mod3', [['group', 'mod2', INNER[p['inner']]]]]]
    elif ctx == 'in_roll':
        q['desc'] = [['roll', 2, 2, [g]]]
    elif ctx == 'in_roll31':
        q['desc'] = [['roll', 3, 1, [g]]]
    elif ctx == 'in_split':
        q['desc'] = [['split', 'div3', [g]]]
    # order between different lifetimes inside one source event is specified only for the completion flush of group_by itself
    q['mode'] = 'exact' if ctx == 'root' else 'per_t'
    return refdiff(q)


def many_groups(p):
    """G distinct keys (concrete, G crosses 8 / 16 / 64 / 256) each with one concrete item, then symbolic items for the first, a middle and the last key:
    every group must still receive exactly its own items, in order (group_by with to_list per group)"""
    import rxsci as rs
    from vp import drivers as D
    from vp.harness import mk, fail
    G = p['g']

    def body(a):
        v0, v1, v2 = a
        items = [(k, k) for k in range(G)] + [(0, v0), (G // 2, v1), (G - 1, v2), (0, v1)]
        out = D.run_mux(items, [rs.ops.group_by(lambda i: ('k', i[0]), [rs.data.to_list()])])
        exp = []
        for k in range(G):
            exp.append([x for x in items if x[0] == k])
        return out == exp or fail(groups=G, problem='groups differ', first_bad=[(i, o, e) for i, (o, e) in enumerate(zip(out, exp)) if o != e][:2], n_out=len(out))
    return mk('many_groups', [('v0', 'int'), ('v1', 'int'), ('v2', 'int')], ['-2**40 <= v%d <= 2**40' % i for i in range(3)], body)


def nested_density(p):
    """group_by > roll(w, 1) > group_by: the inner parent keys are outer_index * ceil(w/s) + offset, i.e. sparse by a large factor"""
    import rxsci as rs
    from vp import drivers as D
    from vp import refsem as R
    from vp.harness import mk, fail
    w = p['w']

    def body(a):
        v0, v1, v2 = a
        items = [(0, v0), (1, v1), (0, v2), (1, v0)]
        real = [rs.ops.group_by(lambda i: i[0], [rs.data.roll(w, 1, [rs.ops.group_by(lambda i: i[0] + 10, [rs.data.to_list(), rs.ops.map(lambda l: tuple(l))])])])]
        ref = [R.GroupBy(lambda i: i[0], [R.Roll(w, 1, [R.GroupBy(lambda i: i[0] + 10, [R.Scan(lambda acc, i: acc + [i], list, reduce=True), R.Map(lambda l: tuple(l))])])])]
        got = D.run_mux_done(items, real)
        exp = [v for _, v in R.run(ref, items)] + [D.END]
        from vp.props.common import multiset_eq
        return (len(got) == len(exp) and got[-1] == D.END and multiset_eq(got[:-1], exp[:-1])) or fail(w=w, items=items, observed=got, expected=exp)
    return mk('nested_density', [('v0', 'int'), ('v1', 'int'), ('v2', 'int')], ['-2**40 <= v%d <= 2**40' % i for i in range(3)], body)


FAMILIES = {'runs': runs, 'many_groups': many_groups, 'nested_density': nested_density}


def obligations(tier, seed):
    obs = []
    q = tier == 'quick'
    nmax = 4 if q else 6
    for km in ('mod2', 'tup2', 'big2', 'flt2', 'str2', 'neg2', 'negt', 'mod3', 'tup3'):
        for inner in ('to_list', 'identity'):
            for n in range(0, nmax + 1):
                if km in ('mod3', 'tup3') and n > (4 if q else 5):
                    continue
                if q and inner == 'identity' and n not in (3, 4):
                    continue
                obs.append(Ob(PROP, 'runs', dict(ctx='root', km=km, inner=inner, n=n), budget=120 if q else 900,
                              bound=dict(items=n, values='any int', key_mapper=km)))
    for inner in ('scan', 'count_last'):
        obs.append(Ob(PROP, 'runs', dict(ctx='root', km='tup2', inner=inner, n=4 if q else 5), budget=120 if q else 900, bound=dict(items=4 if q else 5)))
    for ctx in ('in_group', 'in_roll', 'in_roll31', 'in_split', 'after'):
        for n in ((3, 4) if q else (3, 4, 5)):
            if q and ctx in ('in_group', 'in_split') and n == 4:
                continue
            obs.append(Ob(PROP, 'runs', dict(ctx=ctx, km='tup2', inner='to_list', n=n), budget=150 if q else 900, bound=dict(items=n, ctx=ctx)))
    for k in (1, 2):
        obs.append(Ob(PROP, 'runs', dict(ctx='root', km='tup2', inner='to_list', n=3, retry=k), budget=120 if q else 900, group='after an aborted subscription', bound=dict(items=3, first_subscription_aborted_after=k)))
    for g in ((9, 17, 65, 258) if q else (9, 17, 33, 65, 129, 258, 520)):
        obs.append(Ob(PROP, 'many_groups', dict(g=g), budget=240 if q else 900, group='many groups', bound=dict(groups=g, values='3 symbolic items, the rest concrete')))
    for w in ((17, 32) if q else (9, 17, 32, 64)):
        obs.append(Ob(PROP, 'nested_density', dict(w=w), budget=240 if q else 900, group='nested sparse parent keys', bound=dict(window=w, stride=1, nesting='group_by > roll > group_by')))
    obs.append(Ob(PROP, 'runs', dict(ctx='root', km='tup2', inner='to_list', n=3, _twin='reach'), budget=60, expect='refute'))
    return obs
