"""C06 split cuts each key's stream into maximal runs of equal predicate value."""
import rxsci as rs
from vp import drivers as D
from vp.engine import Ob
from vp.harness import mk, fail, ints
from vp.props.common import refdiff

PROP = 'C06'
META = dict(
    explanation='Whole runs of the real split operator (under with_memory_store, top level, under group_by with interleaved keys, nested in roll/split) '
                'on N symbolic integer items are compared with the reference interpreter (maximal runs of equal predicate value, by !=, closed at key completion, '
                'no segment for an empty key); predicates return fresh tuples / run-time built strings so equality and identity differ, and in one family a shared object that is != itself (NaN) so identity must not short-cut the comparison. '
                'A one-step form runs split_mux from an arbitrary stored predicate (NOTSET or a value) on one item.',
    bounds=dict(quick='N <= 5 items (4 for the v//3 predicate and nested contexts), any integers; predicates v%3 tuple, v%2 string, v//3 tuple; contexts root, group_by(mod2), roll(2,2), roll(3,1), split, and completion-triggered consumers placed after split on the same key; long-but-narrow: 9 / 17 / 33 keys live at once under group_by with 4 symbolic items',
                thorough='N <= 7 (root), N <= 5 nested; same predicates and contexts'),
    outside='longer streams except through the one-step form; predicates with side effects or raising; error (OnErrorMux) closing path beyond the one-step form',
    assumptions=['reference interpreter vp/refsem.py transcribes the property statement', 'synchronous single-threaded delivery (RxPY immediate scheduling)'],
    stubs=[],
)

INNERS = {
    'to_list': [['to_list_sum']],
    'count_last': [['count'], ['last']],
    'scan': [['scan_add']],
}


def _desc(ctx, pred, inner):
    sp = ['split', pred, INNERS[inner]]
    if ctx == 'root':
        return [sp]
    if ctx == 'group':
        return [['group', 'mod2', [sp]]]
    if ctx == 'roll22':
        return [['roll', 2, 2, [sp]]]
    if ctx == 'roll31':
        return [['roll', 3, 1, [sp]]]
    if ctx == 'split':
        return [['split', 'div3', [sp]]]
    if ctx == 'root_after':   # a completion-triggered consumer after split on the same key: the last segment must be closed before the key's own completion is forwarded
        return [sp, ['to_list_sum']]
    if ctx == 'group_after':
        return [['group', 'mod2', [sp, ['scan_add_r']]]]
    if ctx == 'roll_after':
        return [['roll', 2, 2, [sp, ['last']]]]
    if ctx == 'split_in':     # split whose inner pipeline contains another split
        return [['split', pred, [['split', 'mod2', INNERS[inner]]]]]
    raise KeyError(ctx)


def runs(p):
    q = dict(p)
    q['desc'] = _desc(p['ctx'], p['pred'], p['inner'])
    q['mode'] = 'per_t'
    q['unbounded'] = True
    return refdiff(q)


def step(p):
    """one OnNextMux on split_mux from an arbitrary stored predicate value"""
    from vp.catalog import PRED
    pred = PRED[p['pred']]

    def body(a):
        has, cur, v = a
        log = []
        # pre-state built through the real operator: feed an item whose predicate is the stored one
        ev = [rs.OnCreateMux((1,))]
        if has:
            ev.append(rs.OnNextMux((1,), cur))
        ev.append(rs.OnNextMux((1,), v))
        ev.append(rs.OnCompletedMux((1,)))
        log, err = D.mux_events(ev, [rs.data.split(pred, [rs.ops.map(lambda i: i)])])
        items = [e[2] for e in log if e[0] == 'n']
        exp = ([cur] if has else []) + [v]
        if items != exp or err:
            return fail(observed=log, expected=exp)
        return True
    return mk('split_step', [('has', 'bool'), ('cur', 'int'), ('v', 'int')], [], body)


_NAN = float('nan')      # one shared object that compares != to itself


def selfunequal(p):
    """the predicate returns, for odd items, the SAME object every time, and that object is != itself (a shared NaN): by the statement a new segment starts
    whenever the value differs by != from the previous one, so every odd item starts a segment.  Segments are compared as (length, digest) pairs and the
    empty segment the implementation emits when the very first value is self-unequal is ignored (the statement neither requires nor forbids it)."""
    from vp import refsem as R
    from vp.catalog import _lsum
    n = p['n']
    pre = ['-2**40 <= v%d <= 2**40' % i for i in range(n)]

    def pred(i):
        return _NAN if i % 2 == 1 else 0.5

    def body(a):
        items = list(a)
        real = [rs.data.split(pred, [rs.data.to_list(), rs.ops.map(lambda l: (len(l), _lsum(l)))])]
        ref = [R.Split(pred, [R.Scan(lambda acc, i: acc + [i], list, reduce=True), R.Map(lambda l: (len(l), _lsum(l)))])]
        got = [(t, v) for t, v in D.run_timed(items, real) if not (isinstance(v, tuple) and v[0] == 0)]
        exp = [(t, v) for t, v in R.run(ref, items) if v[0] != 0]
        return got == exp or fail(items=items, observed=got, expected=exp)
    return mk('split_selfunequal', ints('v', n), pre, body)


def many_keys(p):
    """K keys live at once under group_by (K crosses cache capacities / growth steps 8, 16, 32): every key gets an item, then keys 0, 1 and K-1 get items with
    symbolic values (a segment boundary or not), then every key gets a last item; per key the segments are the maximal runs of equal predicate value"""
    from vp import refsem as R
    from vp.props.common import multiset_eq
    K = p['k']

    def pred(i):
        return (i[1] % 3,)

    def body(a):
        v0, v1, v2, v3 = a
        items = [(0, v0)] + [(k, 5) for k in range(1, K)] + [(0, v1), (K - 1, v2), (1, v3)] + [(k, 5) for k in range(K)]
        inner_real = [rs.data.to_list(), rs.ops.map(lambda l: tuple(l))]
        inner_ref = [R.Scan(lambda acc, i: acc + [i], list, reduce=True), R.Map(lambda l: tuple(l))]
        real = [rs.ops.group_by(lambda i: i[0], [rs.data.split(pred, inner_real)])]
        ref = [R.GroupBy(lambda i: i[0], [R.Split(pred, inner_ref)])]
        got = D.run_mux(items, real)
        exp = [v for _, v in R.run(ref, items)]
        return multiset_eq(got, exp) or fail(keys=K, items=items, observed=got, expected=exp)
    return mk('split_many_keys', ints('v', 4), ['-2**40 <= v%d <= 2**40' % i for i in range(4)], body)


FAMILIES = {'runs': runs, 'step': step, 'selfunequal': selfunequal, 'many_keys': many_keys}


def obligations(tier, seed):
    obs = []
    q = tier == 'quick'
    nmax = 5 if q else 7
    for pred in ('tup3', 'str2', 'div3'):
        for n in range(0, nmax + 1):
            if pred == 'div3' and n > (4 if q else 5):
                continue
            obs.append(Ob(PROP, 'runs', dict(ctx='root', pred=pred, inner='to_list', n=n), budget=300 if q else 900,
                          bound=dict(items=n, values='any int', pred=pred)))
    for ctx in ('group', 'roll22', 'roll31', 'split', 'split_in', 'root_after', 'group_after', 'roll_after'):
        for n in ((2, 3, 4) if q else (2, 3, 4, 5)):
            obs.append(Ob(PROP, 'runs', dict(ctx=ctx, pred='tup3', inner='to_list', n=n), budget=400 if q else 1200,
                          bound=dict(items=n, values='any int', ctx=ctx)))
    for inner in ('count_last', 'scan'):
        obs.append(Ob(PROP, 'runs', dict(ctx='root', pred='tup3', inner=inner, n=3 if q else 5), budget=300 if q else 900, bound=dict(items=3 if q else 5)))
    for k in (1, 2):
        for ctx in ('root', 'roll22'):
            obs.append(Ob(PROP, 'runs', dict(ctx=ctx, pred='tup3', inner='to_list', n=3, retry=k), budget=300 if q else 900, group='after an aborted subscription', bound=dict(items=3, ctx=ctx, first_subscription_aborted_after=k)))
    for n in ((2, 3, 4) if q else (2, 3, 4, 5, 6)):
        obs.append(Ob(PROP, 'selfunequal', dict(n=n), budget=300 if q else 900, group='self-unequal predicate value', bound=dict(items=n, predicate='shared NaN object for odd items')))
    for k in ((9, 17, 33) if q else (9, 10, 17, 33, 65)):
        obs.append(Ob(PROP, 'many_keys', dict(k=k), budget=300 if q else 900, group='many live keys', bound=dict(live_keys=k, symbolic_items=4)))
    obs.append(Ob(PROP, 'runs', dict(ctx='root', pred='tup3', inner='to_list', n=3, _twin='reach'), budget=60, expect='refute'))
    return obs
