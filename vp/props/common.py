"""Harness families shared by several properties."""
import contextlib
import io

from vp import catalog as C
from vp import drivers as D
from vp import refsem as R
from vp.harness import mk, fail, ints, rng


def multiset_eq(a, b):
    """equality of two small lists as multisets, without sorting or hashing"""
    if len(a) != len(b):
        return False
    b = list(b)
    for x in a:
        for j in range(len(b)):
            if b[j] == x:
                del b[j]
                break
        else:
            return False
    return True


def compare(got, exp, mode):
    """got/exp: timed traces [(t, value)]"""
    if mode == 'exact':
        return got == exp
    if mode == 'values':
        return [v for _, v in got] == [v for _, v in exp]
    if mode == 'per_t':
        if got == exp:
            return True
        if len(got) != len(exp):
            return False
        g, e = R.per_t(got), R.per_t(exp)
        if len(g) != len(e):
            return False
        for t in g:
            if t not in e or not multiset_eq(g[t], e[t]):
                return False
        return True
    raise ValueError(mode)


def refdiff(p):
    """Real pipeline (driven by a Subject, outputs time-stamped with the source
    position) vs the reference interpreter on the same symbolic items.

    params: desc (catalogue descriptor), n (items), mode exact|values|per_t,
            nondecr (items sorted: timestamps), lo/hi (optional value range),
            none (list of positions whose item may be None: adds a bool arg)
    """
    desc, n, mode = p['desc'], p['n'], p.get('mode', 'per_t')
    nsym = min(n, p.get('nsym', n))          # long runs: only the first nsym items are symbolic, the others are the concrete values 0, 1, 2 ... (their index)
    sig = ints('v', nsym)
    pre = []
    lo, hi = p.get('lo', -2 ** 40), p.get('hi', 2 ** 40)   # int64 accumulators (array('q') state) stay in range: overflow is outside every claim
    pre += rng([a for a, _ in sig], lo, hi) if not p.get('unbounded') else []
    if p.get('nondecr'):
        pre += ['%s <= %s' % (sig[i][0], sig[i + 1][0]) for i in range(nsym - 1)]
        if n:
            pre += ['0 <= v0']

    def body(a):
        items = list(a) + list(range(nsym, n))
        real, ref = C.build(desc)
        if p.get('retry') is not None:
            # the same operator objects first serve a subscription aborted (rx-level error) after `retry` items
            got = D.run_timed_after_abort(items, real, p['retry'])
        else:
            got = D.run_timed(items, real)
        exp = R.run(ref, items)
        if compare(got, exp, mode):
            return True
        return fail(pipeline=C.show(desc), items=items, observed=got, expected=exp, mode=mode, aborted_first_subscription_after=p.get('retry'))
    return mk('refdiff', sig, pre, body)


def quiet(f, *a, **k):
    with contextlib.redirect_stdout(io.StringIO()):
        return f(*a, **k)
