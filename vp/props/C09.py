"""C09 scan/reduce algebra: running folds, final fold, per-key seed isolation."""
import copy
import sys

import rx
import rxsci as rs
from rx.subject import Subject
from vp import drivers as D
from vp.engine import Ob
from vp.harness import mk, fail, ints
from vp.props.common import quiet

PROP = 'C09'
META = dict(
    explanation='Whole runs of the real scan(accumulator, seed, reduce, terminator) on N symbolic integers: accumulators int add, max with None seed, list append that mutates and returns its accumulator, pair (sum, count); '
                'seeds given as values and as factories; reduce on/off; terminator on/off; on plain observables, on the root key of a multiplexed stream, inside group_by with 2 interleaved keys and inside roll(2,2) '
                '(successive lifetimes on one key slot). Outputs are snapshotted at emission (mutable accumulators alias). Oracle: the left fold written directly on lists - running folds when streaming, '
                'exactly one item per key at completion with reduce (the last fold, or the seed for an empty key), terminator applied once. Seed isolation is what makes the per-key / per-lifetime folds come out right with the shared mutable list seed. '
                'A one-step form presets the real store to an arbitrary accumulator (NOTSET or a symbolic value) and pushes one OnNextMux / OnCompletedMux through scan_mux. '
                'Operators defined through scan (count, min, max, to_list, to_array, batch, distinct_until_changed, progress) are compared with their fold definition; dist.update structurally with a stub accumulator (distogram is an external package).',
    bounds=dict(quick='N <= 4 items (|v| < 2^40), <= 2 keys, <= 2 lifetimes per slot; long-but-narrow: 20 / 36 successive lifetimes of one scan with mutable seeds (roll(1,1), roll(2,1)), 9 / 17 / 65 groups live at once', thorough='N <= 6 items, <= 2 keys'),
    outside='accumulators that raise (C13); float accumulators (C12); N above the bound',
    assumptions=['distogram replaced by a list-appending stub for dist.update (structure only)'],
    stubs=['distogram stub: update(acc, i) appends, Distogram(**kw) counts constructions'],
)

NOTE = object()


def _maxn(a, i): return i if a is None or i > a else a
def _app(a, i):
    a.append(i)
    return a


def _nullable(a, i):
    if i % 2 == 0:
        return None
    return (0 if a is None else a) + i


def _nest(a, i):
    a[0].append(i)
    return (a[0], a[1] + 1)


ACCS = {
    # name: (accumulator, seed value factory (fresh each harness call), terminator, snapshot)
    'add': (lambda a, i: a + i, lambda: 0, lambda a: a * 100 + 1, lambda x: x),
    'maxn': (_maxn, lambda: None, lambda a: (a, 'T'), lambda x: x),
    'app': (_app, lambda: [], lambda a: a + [-1], lambda x: list(x) if isinstance(x, list) else x),
    'pair': (lambda a, i: (a[0] + i, a[1] + 1), lambda: (0, 0), lambda a: (a[0], -a[1]), lambda x: x),
    # the accumulator returns None at some steps although the seed is not None: None is a value like any other, the fold goes on from it
    'nullable': (_nullable, lambda: 7, lambda a: ('T', a), lambda x: x),
    # immutable container holding a mutable one that the accumulator mutates in place (the shape of the seed of rs.data.batch)
    'nest': (_nest, lambda: ([], 0), lambda a: (a[0] + [-1], -a[1]), lambda x: (list(x[0]), x[1]) if isinstance(x, tuple) and len(x) == 2 and isinstance(x[0], list) else x),
}


def fold(items, f, seed, reduce, term, snap):
    acc = seed()
    outs = []
    for v in items:
        acc = f(acc, v)
        if not reduce:
            outs.append(snap(acc))
    if term:
        acc = term(acc)
        if not reduce:
            outs.append(snap(acc))
    if reduce:
        outs.append(snap(acc))
    return outs


def scan_runs(p):
    """params: acc, seedkind value|factory, reduce, term, ctx plain|root|group|roll, n"""
    f, mkseed, term, snap = ACCS[p['acc']]
    term = term if p['term'] else None
    n, ctx, reduce = p['n'], p['ctx'], p['reduce']
    nsym = min(n, p.get('nsym', n))        # long runs: the first nsym items are symbolic, the rest are the concrete values 0, 1, 2 ...
    pre = ['-2**40 <= v%d <= 2**40' % i for i in range(nsym)]

    def body(a):
        items = list(a) + list(range(nsym, n))
        seed = mkseed() if p['seedkind'] == 'value' else mkseed
        op = rs.ops.scan(f, seed, reduce=reduce, terminator=term)
        if ctx in ('plain', 'root'):
            # the same pipeline object is subscribed twice: a second subscription is a new lifetime and must start from a fresh seed
            pipe_op = op if ctx == 'plain' else rs.state.with_memory_store([op])
            # the same observable object: a first subscription that ends with an rx-level error after one item (no key completion), then two clean ones
            obs = D.flaky_src(items, 1).pipe(pipe_op)
            obs.subscribe(on_next=lambda i: None, on_error=lambda e: None)
            exp = fold(items, f, mkseed, reduce, term, snap)
            for sub in (1, 2):
                got = []
                obs.subscribe(on_next=lambda v: got.append(snap(v)), on_error=lambda e: got.append(('ERR', repr(e))))
                if got != exp:
                    return fail(ctx=ctx, subscription=sub, items=items, observed=got, expected=exp)
            return True
        head, tail = [], []
        inner = [D.tap(head), op, D.tap(tail, snap)]
        if ctx == 'group':
            pipe = [rs.ops.group_by(lambda i: 0 if i % 2 == 0 else 1, inner)]
        elif ctx == 'roll11':
            pipe = [rs.data.roll(1, 1, inner)]       # every item is a lifetime of its own: many seedings of the same scan on one slot
        elif ctx == 'roll21':
            pipe = [rs.data.roll(2, 1, inner)]       # overlapping lifetimes alternating between two slots
        else:
            pipe = [rs.data.roll(2, 2, inner)]
        err = []
        D.src(items).pipe(rs.state.with_memory_store(pipe)).subscribe(on_error=lambda e: err.append(repr(e)))
        ins, ok1 = D.lifetimes(head)
        outs, ok2 = D.lifetimes(tail)
        if err or not ok1 or not ok2 or len(ins) != len(outs):
            return fail(ctx=ctx, items=items, head=head, tail=tail, err=err)
        for i, o in zip(ins, outs):
            exp = fold(i, f, mkseed, reduce, term, snap)
            if o != exp:
                return fail(ctx=ctx, items=items, lifetime_items=i, observed=o, expected=exp)
        return True
    return mk('scan_runs', ints('v', nsym), pre, body)


def scan_many_keys(p):
    """K groups live at once under group_by (K crosses table growth steps 8 / 16 / 64 / 128): every group gets an item as it is created - the state tables grow
    while earlier groups hold accumulators - then groups 0, 1 and K-1 get further, symbolic, items: every group's outputs are the fold of its own items"""
    f, mkseed, term, snap = ACCS[p['acc']]
    K = p['k']

    def body(a):
        v0, v1, v2 = a
        items = [(0, v0)] + [(k, k) for k in range(1, K)] + [(0, v1), (K - 1, v2), (1, v0), (K // 2, 3)]
        seed = mkseed() if p['seedkind'] == 'value' else mkseed
        tail = []
        inner = [rs.ops.map(lambda i: i[1]), rs.ops.scan(f, seed), D.tap(tail, snap)]
        err = []
        D.src(items).pipe(rs.state.with_memory_store([rs.ops.group_by(lambda i: i[0], inner)])).subscribe(on_error=lambda e: err.append(repr(e)))
        outs, ok = D.lifetimes(tail)
        if err or not ok or len(outs) != K:
            return fail(keys=K, err=err, wellformed=ok, groups_seen=len(outs))
        for k in range(K):
            exp = fold([v for kk, v in items if kk == k], f, mkseed, False, None, snap)
            if outs[k] != exp:
                return fail(keys=K, key=k, key_items=[v for kk, v in items if kk == k], observed=outs[k], expected=exp)
        return True
    return mk('scan_many_keys', ints('v', 3), ['-2**40 <= v%d <= 2**40' % i for i in range(3)], body)


def scan_step(p):
    """one event on scan_mux from an arbitrary stored accumulator (inductive step:
    covers keys of any length).  params: acc, reduce, term, event next|complete"""
    f, mkseed, term, snap = ACCS[p['acc']]
    term = term if p['term'] else None
    reduce = p['reduce']

    def body(a):
        has, st, v = a
        if p['acc'] == 'maxn':
            stored = st
        elif p['acc'] == 'app':
            stored = [st]
        elif p['acc'] == 'pair':
            stored = (st, 1)
        elif p['acc'] == 'nest':
            stored = ([st], 1)
        elif p['acc'] == 'nullable':
            stored = None if st % 2 == 0 else st
        else:
            stored = st
        store = rs.state.StoreManager(store_factory=rs.state.MemoryStore)
        s = Subject()
        out = []
        key = (3,)
        rs.MuxObservable(lambda o, sch=None: s.subscribe(o, scheduler=sch)).pipe(
            rs.state.with_store(store, [rs.ops.scan(f, mkseed, reduce=reduce, terminator=term)])
        ).subscribe(on_next=lambda i: out.append(i), on_error=lambda e: out.append(('ERR', repr(e))))
        s.on_next(rs.OnCreateMux(key))
        # calibration: this harness presets the accumulator through state id 0 of the store; check that this is where the real operator keeps it
        # (if the representation has changed the obligation is inconclusive, never a violation)
        from vp.harness import Inconclusive
        try:
            probe = store.get_state(0, key)
        except Exception:
            probe = 'unreadable'
        if probe is not rs.state.markers.STATE_NOTSET:
            raise Inconclusive('scan_mux no longer keeps its accumulator in state 0 as NOTSET until the first item')
        if has:
            try:
                store.set_state(0, key, stored)
                back = store.get_state(0, key)
            except Exception:
                back = 'unwritable'
            if snap(back) != snap(stored):
                raise Inconclusive('scan_mux no longer keeps its accumulator as a plain value in state 0')
        del out[:]
        base = copy.deepcopy(stored) if has else mkseed()
        if p['event'] == 'next':
            s.on_next(rs.OnNextMux(key, v))
            exp_acc = f(base, v)
            got_items = [snap(i.item) for i in out if type(i) is rs.OnNextMux]
            exp_items = [] if reduce else [snap(exp_acc)]
            now = store.get_state(0, key)
            if got_items != exp_items or len(out) != len(exp_items):
                return fail(event='next', stored=stored if has else 'NOTSET', item=v, observed=got_items, expected=exp_items, stored_after=now)
            if snap(now) != snap(exp_acc):
                from vp import harness
                if harness.CONCRETE[0]:
                    # the outputs are right and only the stored value differs from what this harness expects to read back: judge the post-state through
                    # behaviour (one more item and the completion) - where the accumulator lives between events is the operator's business
                    del out[:]
                    s.on_next(rs.OnNextMux(key, v))
                    s.on_next(rs.OnCompletedMux(key))
                    acc2 = f(copy.deepcopy(exp_acc), v)
                    exp2 = [] if reduce else [snap(acc2)]
                    if term:
                        acc2 = term(acc2)
                        if not reduce:
                            exp2.append(snap(acc2))
                    if reduce:
                        exp2.append(snap(acc2))
                    got2 = [snap(i.item) for i in out if type(i) is rs.OnNextMux]
                    if got2 == exp2 and type(out[-1]) is rs.OnCompletedMux:
                        raise Inconclusive('post-state artefact: the stored value read back differs, but the next item and the completion behave as from the expected accumulator')
                return fail(event='next', stored=stored if has else 'NOTSET', item=v, observed=got_items, expected=exp_items, stored_after=now)
            return True
        s.on_next(rs.OnCompletedMux(key))
        acc = base
        exp_items = []
        if term:
            acc = term(acc)
            if not reduce:
                exp_items.append(snap(acc))
        if reduce:
            exp_items.append(snap(acc))
        got_items = [snap(i.item) for i in out if type(i) is rs.OnNextMux]
        done = [i for i in out if type(i) is rs.OnCompletedMux]
        if got_items != exp_items or len(done) != 1 or type(out[-1]) is not rs.OnCompletedMux:
            return fail(event='complete', stored=stored if has else 'NOTSET', observed=got_items, expected=exp_items)
        return True
    return mk('scan_step', [('has', 'bool'), ('st', 'int'), ('v', 'int')], ['-2**40 <= st <= 2**40', '-2**40 <= v <= 2**40'], body)


def _chunks(items, n):
    return [items[i:i + n] for i in range(0, len(items), n)]


DERIVED = {
    'count': (lambda: rs.ops.count(), lambda it: [i + 1 for i in range(len(it))]),
    'count_r': (lambda: rs.ops.count(reduce=True), lambda it: [len(it)]),
    'min': (lambda: rs.math.min(), lambda it: fold(it, lambda a, i: i if a is None or i < a else a, lambda: None, False, None, lambda x: x)),
    'min_r': (lambda: rs.math.min(reduce=True), lambda it: fold(it, lambda a, i: i if a is None or i < a else a, lambda: None, True, None, lambda x: x)),
    'max': (lambda: rs.math.max(), lambda it: fold(it, _maxn, lambda: None, False, None, lambda x: x)),
    'max_k': (lambda: rs.math.max(key_mapper=lambda i: -i, reduce=True), lambda it: fold([-i for i in it], _maxn, lambda: None, True, None, lambda x: x)),
    'to_list': (lambda: rs.data.to_list(), lambda it: [list(it)]),
    'to_array': (lambda: rx.pipe(rs.data.to_array('q'), rs.ops.map(list)), lambda it: [list(it)]),
    'batch2': (lambda: rs.data.batch(2), lambda it: _chunks(list(it), 2)),
    'duc': (lambda: rs.ops.distinct_until_changed(), lambda it: [v for i, v in enumerate(it) if i == 0 or v != it[i - 1]]),
    'progress': (lambda: rs.ops.progress('p', 2, measure_throughput=False), lambda it: list(it)),
    'progress_t': (lambda: rs.ops.progress('p', 2, measure_throughput=True), lambda it: list(it)),
}


def derived(p):
    fac, oracle = DERIVED[p['op']]
    n, mode = p['n'], p['mode']
    pre = ['-2**40 <= v%d <= 2**40' % i for i in range(n)]

    def body(a):
        items = list(a)
        snap = lambda x: list(x) if isinstance(x, list) else x
        got = []
        if mode == 'plain':
            quiet(lambda: D.src(items).pipe(fac()).subscribe(on_next=lambda v: got.append(snap(v)), on_error=lambda e: got.append(('ERR', repr(e)))))
        else:
            quiet(lambda: D.src(items).pipe(rs.state.with_memory_store([fac()])).subscribe(on_next=lambda v: got.append(snap(v)), on_error=lambda e: got.append(('ERR', repr(e)))))
        exp = oracle(items)
        return got == exp or fail(op=p['op'], mode=mode, items=items, observed=got, expected=exp)
    return mk('derived_' + p['op'], ints('v', n), pre, body)


class _FakeDistogram(object):
    def __init__(self):
        self.made = 0

    def Distogram(self, **kw):
        self.made += 1
        return ['D%d' % self.made]

    def update(self, acc, i):
        acc.append(i)
        return acc


def dist_update(p):
    n, reduce = p['n'], p['reduce']
    pre = ['-2**40 <= v%d <= 2**40' % i for i in range(n)]

    def body(a):
        items = list(a)
        fake = _FakeDistogram()
        from vp import harness
        with harness.stubbed([('rxsci.math.dist', 'distogram', fake)]):
            head, tail = [], []
            inner = [D.tap(head), rs.math.dist.update(reduce=reduce), D.tap(tail, lambda x: list(x))]
            D.src(items).pipe(rs.state.with_memory_store([rs.ops.group_by(lambda i: 0 if i % 2 == 0 else 1, inner)])).subscribe(on_error=lambda e: tail.append(('ERR', repr(e))))
        ins, ok1 = D.lifetimes(head)
        outs, ok2 = D.lifetimes(tail)
        if not ok1 or not ok2 or len(ins) != len(outs) or fake.made != len(ins):
            return fail(items=items, head=head, tail=tail, seeds_made=fake.made)
        for i, o in zip(ins, outs):
            exp = [o[0][:1] + i[:k + 1] for k in range(len(i))] if not reduce else [o[0][:1] + i]
            if o != exp or not o[0][0].startswith('D'):
                return fail(items=items, lifetime_items=i, observed=o, expected=exp)
        # distinct seeds per key
        if len(set(o[0][0] for o in outs)) != len(outs):
            return fail(items=items, observed=outs, expected='one Distogram per key')
        return True
    return mk('dist_update', ints('v', n), pre, body)


FAMILIES = {'scan_many_keys': scan_many_keys, 'scan_runs': scan_runs, 'scan_step': scan_step, 'derived': derived, 'dist_update': dist_update}


def obligations(tier, seed):
    obs = []
    q = tier == 'quick'
    b = 120 if q else 900
    for acc in ACCS:
        for seedkind in ('value', 'factory'):
            for reduce in (False, True):
                for term in (False, True):
                    for ctx, ns in (('plain', (0, 2) if q else (0, 1, 3, 5)), ('root', (0, 3) if q else (0, 1, 4, 6)),
                                    ('group', (3, 4) if q else (3, 4, 5, 6)), ('roll', (3, 4) if q else (3, 5, 6))):
                        if q and ctx in ('group',) and acc in ('maxn',):
                            ns = (3,)
                        if acc == 'nullable' and seedkind == 'value' and ctx != 'plain':
                            continue      # precondition of the statement: in multiplexed mode the accumulator returns values of the seed's type (an int seed is stored in a typed array); a factory seed is stored as an object
                        for n in ns:
                            obs.append(Ob(PROP, 'scan_runs', dict(acc=acc, seedkind=seedkind, reduce=reduce, term=term, ctx=ctx, n=n), budget=b,
                                          group='scan_runs:' + ctx, bound=dict(items=n, acc=acc, ctx=ctx)))
                if seedkind == 'value' and acc != 'nullable':
                    for term in (False, True):
                        for ev in ('next', 'complete'):
                            obs.append(Ob(PROP, 'scan_step', dict(acc=acc, reduce=reduce, term=term, event=ev), budget=b,
                                          bound=dict(step='one event from an arbitrary stored accumulator (history of any length)')))
    for acc in ('app', 'nest', 'pair'):
        for seedkind in ('value', 'factory'):
            for ctx, n in (('roll11', 20), ('roll21', 36)) if q else (('roll11', 20), ('roll21', 36), ('roll11', 70), ('roll21', 140), ('roll11', 300)):
                obs.append(Ob(PROP, 'scan_runs', dict(acc=acc, seedkind=seedkind, reduce=False, term=False, ctx=ctx, n=n, nsym=2), budget=b * 2, group='scan_runs:many lifetimes',
                              bound=dict(items=n, lifetimes=n, acc=acc, seed=seedkind, values='2 symbolic items, the rest concrete')))
    for acc in ('add', 'app', 'pair'):
        for seedkind in (('value',) if acc == 'add' else ('value', 'factory')):
            for k in ((9, 17, 65) if q else (9, 10, 17, 33, 65, 129, 257)):
                obs.append(Ob(PROP, 'scan_many_keys', dict(acc=acc, seedkind=seedkind, k=k), budget=b * 2, group='scan:many live keys', bound=dict(live_keys=k, acc=acc, seed=seedkind, symbolic_items=3)))
    for op in DERIVED:
        for mode in ('plain', 'mux'):
            for n in ((0, 3) if q else (0, 1, 4, 5)):
                obs.append(Ob(PROP, 'derived', dict(op=op, mode=mode, n=n), budget=b, group='derived', bound=dict(items=n, op=op, mode=mode)))
    for reduce in (False, True):
        obs.append(Ob(PROP, 'dist_update', dict(n=3 if q else 5, reduce=reduce), budget=b, bound=dict(items=3 if q else 5, keys=2)))
    obs.append(Ob(PROP, 'scan_runs', dict(acc='app', seedkind='value', reduce=False, term=True, ctx='group', n=3, _twin='reach'), budget=60, expect='refute'))
    obs.append(Ob(PROP, 'scan_step', dict(acc='add', reduce=False, term=True, event='next', _twin='reach'), budget=60, expect='refute'))
    return obs
