"""C02 state confinement: a key lifetime's output depends only on that lifetime's items."""
import rxsci as rs
from vp import catalog as C
from vp import drivers as D
from vp.engine import Ob
from vp.harness import mk, fail, ints

PROP = 'C02'
META = dict(
    explanation='Differential, real code on both sides, no reference model: a stateful inner pipeline is placed inside a keyed parent (group_by with interleaved keys, roll with tumbling / overlapping / gapped windows, split, time_split); '
                'taps at the head and tail of the inner pipeline bracket every lifetime (OnCreateMux .. OnCompletedMux). For every lifetime the tail outputs must equal the outputs of the same inner pipeline run standalone '
                'in a fresh store on exactly the items the head tap saw during that lifetime - for all N symbolic integer items, i.e. for every interleaving of keys and every history of lifetimes on a reused slot. '
                'A second form feeds hand-built mux event lists through the pipeline with sparse, descending and re-used key indices chosen by the solver; two "long but narrow" forms keep the schedule fixed and the values symbolic: 9 / 17 / 65 keys live at once (growth steps and cache capacities) and 18 / 40 / 260 successive lifetimes on one slot (pools, 8-bit generation counters).',
    bounds=dict(quick='N <= 4 items (|v| <= 2^40), <= 2 groups, >= 2 lifetimes per slot for key-reusing parents; 26 stateful inner pipelines + tee_map zip/combine_latest + one nested level; long-but-narrow: 9 / 17 / 65 keys live at once created between items (tables grow while earlier keys hold state, one key live without state), 18 / 40 / 260 successive lifetimes on one slot incl. a sparse schedule (one pending item, a long run of empty lifetimes), a 17-slot overlapping roll nested under key-reusing parents',
                thorough='N <= 6 for key-reusing parents, N <= 5 otherwise'),
    outside='inner pipelines outside the catalogue; N above the bound; partitioned stores (set_active_partition)',
    assumptions=['the inner pipeline run standalone on the lifetime items is the specification (differential oracle)'],
    stubs=[],
)

PARENTS = {
    'group': lambda inner: [rs.ops.group_by(C.KM['mod2'], inner)],
    'roll22': lambda inner: [rs.data.roll(2, 2, inner)],
    'roll21': lambda inner: [rs.data.roll(2, 1, inner)],
    'roll32': lambda inner: [rs.data.roll(3, 2, inner)],
    'roll13': lambda inner: [rs.data.roll(1, 3, inner)],
    'split': lambda inner: [rs.data.split(C.PRED['tup2'], inner)],
    'tsplit': lambda inner: [rs.data.time_split(lambda i: i, inactive_timeout=2, pipeline=inner)],
    'group_roll': lambda inner: [rs.ops.group_by(C.KM['mod2'], [rs.data.roll(2, 2, inner)])],
}

INNERS = {k: [[k]] for k in C.STATEFUL}
INNERS.update({
    'tee_zip': [['tee', 'zip', [[['filter_even']], [['filter_odd']]]]],
    'tee_cl': [['tee', 'combine_latest', [[['filter_even']], [['scan_add']]]]],
    'tee_zip3': [['tee', 'zip', [[['filter_even']], [['identity']], [['filter_pos']]]]],
    'lag_scan': [['lag2_sum'], ['scan_add']],
    'nested_roll': [['roll', 2, 2, [['scan_add']]]],
    'nested_roll_wide': [['roll', 17, 1, [['count_r']]]],        # more than 16 overlapping windows per key: whatever tracks them must be per lifetime
    'nested_split': [['split', 'tup2', [['to_list_sum']]], ['scan_add']],     # completion-sensitive inner pipeline: a spurious or missing segment boundary changes the output
    'nested_split_r': [['split', 'tup2', [['count_r']]]],
    'nested_group': [['group', 'mod2', [['first']]], ['count']],
    'nested_group_s': [['group', 'mod3', [['scan_add']]]],          # inner groups of several parents live at once: their indices must not collide
    'take_last': [['take2'], ['last']],
    'to_list_sum': [['to_list_sum']],
    'nested_tsplit': [['tsplit', 3, 2, False, True, [['to_list_sum']]]],
    'distinct_count': [['distinct'], ['count']],
})


def standalone(items, desc):
    return D.run_mux(items, C.build(desc)[0])


def confined(p):
    parent, inner, n = p['parent'], p['inner'], p['n']
    desc = INNERS[inner]
    pre = ['-2**40 <= v%d <= 2**40' % i for i in range(n)]
    if parent == 'tsplit':
        pre += ['v%d <= v%d' % (i, i + 1) for i in range(n - 1)]
    if 'distinct' in inner:
        pre = ['0 <= v%d <= 3' % i for i in range(n)]     # the real distinct hashes its items

    def body(a):
        items = list(a)
        head, tail = [], []
        pipe = PARENTS[parent]([D.tap(head)] + C.build(desc)[0] + [D.tap(tail)])
        err = []
        D.src(items).pipe(rs.state.with_memory_store(pipe)).subscribe(on_error=lambda e: err.append(repr(e)))
        ins, ok1 = D.lifetimes(head)
        outs, ok2 = D.lifetimes(tail)
        if err or not ok1 or not ok2 or len(ins) != len(outs):
            return fail(parent=parent, inner=C.show(desc), items=items, head=head, tail=tail, err=err)
        for i, o in zip(ins, outs):
            exp = standalone(i, desc)
            if o != exp:
                return fail(parent=parent, inner=C.show(desc), items=items, lifetime_items=i, observed=o, expected=exp)
        return True
    return mk('confined', ints('v', n), pre, body)


def _slot(k):
    # solver-chosen key index from a sparse set, by comparison cascade
    return 5 if k <= 0 else (2 if k == 1 else 0)


def slots(p):
    """hand-built mux event list: three lifetimes on solver-chosen key indices
    (sparse, descending, repeated), two items each, interleaved when the indices differ"""
    desc = INNERS[p['inner']]
    fixed = p.get('keys')
    pre = ['-2**40 <= v%d <= 2**40' % i for i in range(4)] + ['0 <= k%d <= 2' % i for i in range(3)]
    if 'distinct' in p['inner']:
        pre = ['0 <= v%d <= 3' % i for i in range(4)] + ['0 <= k%d <= 2' % i for i in range(3)]

    def body(a):
        k0, k1, k2, v0, v1, v2, v3 = a
        if fixed:
            ka, kb, kc = (fixed[0],), (fixed[1],), (fixed[2],)
        else:
            ka, kb, kc = (_slot(k0),), (_slot(k1),), (_slot(k2),)
        ev = [rs.OnCreateMux(ka), rs.OnNextMux(ka, v0)]
        lifes = {}
        if kb != ka:
            # overlapping lifetimes a and b, interleaved
            ev += [rs.OnCreateMux(kb), rs.OnNextMux(kb, v1), rs.OnNextMux(ka, v2), rs.OnCompletedMux(ka), rs.OnNextMux(kb, v3), rs.OnCompletedMux(kb)]
            expect = [[v0, v2], [v1, v3]]
        else:
            # lifetime b re-uses the slot of the completed lifetime a
            ev += [rs.OnNextMux(ka, v2), rs.OnCompletedMux(ka), rs.OnCreateMux(kb), rs.OnNextMux(kb, v1), rs.OnNextMux(kb, v3), rs.OnCompletedMux(kb)]
            expect = [[v0, v2], [v1, v3]]
        ev += [rs.OnCreateMux(kc), rs.OnNextMux(kc, v3), rs.OnCompletedMux(kc)]
        expect.append([v3])
        log, err = D.mux_events(ev, C.build(desc)[0])
        outs, ok = D.lifetimes(log)
        if err or not ok or len(outs) != 3:
            return fail(inner=C.show(desc), events=[tuple(e[:2]) for e in ev], log=log, err=err)
        for i, o in zip(expect, outs):
            exp = standalone(i, desc)
            if o != exp:
                return fail(inner=C.show(desc), keys=[ka, kb, kc], lifetime_items=i, observed=o, expected=exp)
        return True
    return mk('slots', [('k0', 'int'), ('k1', 'int'), ('k2', 'int'), ('v0', 'int'), ('v1', 'int'), ('v2', 'int'), ('v3', 'int')], pre, body)


def many_keys(p):
    """K keys are live at once (hand-built mux events, dense indices 0..K-1: K crosses the growth steps and cache capacities 8 / 16 / 64):
    key 0 gets two items, then every other key gets one item (touching all of them), then key 0, a solver-chosen key and the last key get one more item;
    every key's outputs must equal the inner pipeline run standalone on that key's items"""
    desc, K = INNERS[p['inner']], p['k']
    pre = ['-2**40 <= v%d <= 2**40' % i for i in range(4)]
    if 'distinct' in p['inner']:
        pre = ['0 <= v%d <= 3' % i for i in range(4)]

    def body(a):
        v0, v1, v2, v3 = a
        v4 = 5
        jk = 8 % K
        keys = [(k,) for k in range(K)]
        # creation is interleaved with items: keys 0, 1, 2 first; key 0 gets two items, key 2 none for now (a key that is live but has not been written yet);
        # every further key is created - the tables grow while earlier keys hold state - and touched with one item
        ev = [rs.OnCreateMux(k) for k in keys[:3]]
        per = {k: [] for k in range(K)}

        def push(k, v):
            ev.append(rs.OnNextMux((k,), v))
            per[k].append(v)
        push(0, v0)
        push(0, v1)
        for k in range(3, K):
            ev.append(rs.OnCreateMux((k,)))
            push(k, k if 'distinct' not in p['inner'] else k % 4)
        push(1, v2 if 'distinct' not in p['inner'] else v2 % 4)     # only key 1 gets a symbolic item here: the others are touched with concrete ones
        push(2, 7 if 'distinct' not in p['inner'] else 3)
        push(0, v3)
        push(jk, v4)
        push(K - 1, v4)
        push(0, v1)
        ev += [rs.OnCompletedMux(k) for k in keys]
        log, err = D.mux_events(ev, C.build(desc)[0])
        outs, ok = D.lifetimes(log)
        if err or not ok or len(outs) != K:
            return fail(inner=C.show(desc), keys=K, log=log[:40], err=err)
        for k in (0, jk, K - 1, 1, 2, K // 2, 3):
            exp = standalone(per[k], desc)
            if outs[k] != exp:
                return fail(inner=C.show(desc), live_keys=K, key=k, key_items=per[k], observed=outs[k], expected=exp)
        return True
    return mk('many_keys', [('v%d' % i, 'int') for i in range(4)], pre, body)


def many_lifetimes(p):
    """L successive lifetimes on ONE key slot (create, one or two items, complete): L crosses pool sizes and 8-bit generation counters (18, 40, 260);
    the first, a middle, and the last lifetimes carry symbolic items; every lifetime's outputs equal the standalone run on its items"""
    desc, L = INNERS[p['inner']], p['l']
    pre = ['-2**40 <= v%d <= 2**40' % i for i in range(4)]
    if 'distinct' in p['inner']:
        pre = ['0 <= v%d <= 3' % i for i in range(4)]

    def body(a):
        v0, v1, v2, v3 = a
        key = (3,)
        ev = []
        lifes = []
        for l in range(L):
            if p.get('sparse'):
                # one item in the first lifetime (it may stay pending in a join), nothing at all for a long time, then single items in the last lifetimes:
                # whatever survives on the slot from the first lifetime has had every chance to be taken for current again
                its = [v0] if l == 0 else [[v3], [v1], [v2], [], [v3, v0]][l - (L - 5)] if l >= L - 5 else []
            elif l == 0:
                its = [v0, v1]
            elif l == L // 2:
                its = [v2]
            elif l == L - 2:
                its = []                     # an empty lifetime just before the last one
            elif l == L - 1:
                its = [v3, v0]
            else:
                its = [l % 4, (l + 1) % 4] if l % 3 else [l % 4]
            lifes.append(its)
            ev.append(rs.OnCreateMux(key))
            ev += [rs.OnNextMux(key, x) for x in its]
            ev.append(rs.OnCompletedMux(key))
        log, err = D.mux_events(ev, C.build(desc)[0])
        outs, ok = D.lifetimes(log)
        if err or not ok or len(outs) != L:
            return fail(inner=C.show(desc), lifetimes=L, err=err, wellformed=ok, seen=len(outs))
        for l in (0, 1, L // 2, L - 5, L - 4, L - 3, L - 2, L - 1):
            exp = standalone(lifes[l], desc)
            if outs[l] != exp:
                return fail(inner=C.show(desc), lifetimes=L, lifetime=l, lifetime_items=lifes[l], observed=outs[l], expected=exp)
        return True
    return mk('many_lifetimes', [('v%d' % i, 'int') for i in range(4)], pre, body)


FAMILIES = {'confined': confined, 'slots': slots, 'many_keys': many_keys, 'many_lifetimes': many_lifetimes}


KEYPAT = [[5, 5, 5], [5, 2, 5], [5, 2, 2], [0, 5, 2], [2, 0, 0]]
CORE = ('scan_add', 'tee_zip', 'tee_cl', 'take2', 'last', 'distinct', 'pad_end', 'first', 'lag2_sum', 'batch2_sum', 'duc', 'start_with', 'nested_split', 'nested_split_r', 'nested_roll', 'nested_roll_wide', 'nested_group_s')
ALLP = (('group', 4), ('roll22', 4), ('roll21', 3), ('roll32', 4), ('split', 4), ('tsplit', 3), ('roll13', 4), ('group_roll', 4))


def obligations(tier, seed):
    obs = []
    q = tier == 'quick'
    b = 150 if q else 900
    for idx, inner in enumerate(INNERS):
        heavy = C.branching(INNERS[inner])
        if q and inner not in CORE:
            # rotate three parents over the remaining inner pipelines (all parents in the thorough tier)
            parents = [ALLP[0], ALLP[1 + idx % 3], ALLP[4 + idx % 2]]
        elif q:
            parents = [x for x in ALLP if heavy <= 2 or x[0] not in ('group_roll', 'roll32')]
        else:
            parents = ALLP
        if q and inner == 'nested_group_s':
            parents = [x for x in ALLP if x[0] in ('group', 'roll21')]
        for parent, n in parents:
            if not q:
                n += 1 if heavy > 2 or parent in ('group', 'split', 'group_roll') else 2
            if q and heavy > 2 and parent in ('group', 'split', 'group_roll', 'roll22'):
                n = 3
            obs.append(Ob(PROP, 'confined', dict(parent=parent, inner=inner, n=n), budget=b * 3 if heavy >= 3 else b, group='confined:' + parent,
                          bound=dict(items=n, parent=parent, inner=C.show(INNERS[inner]))))
        if heavy > 1:
            for kp in (KEYPAT[:3] if q else KEYPAT):
                if q and inner not in CORE:
                    continue
                if q and inner == 'nested_group_s' and kp != KEYPAT[1]:
                    continue
                obs.append(Ob(PROP, 'slots', dict(inner=inner, keys=kp), budget=b * 3 if heavy >= 3 else b, bound=dict(lifetimes=3, key_indices=kp, items=4)))
        elif not inner.startswith('nested') or not q:
            obs.append(Ob(PROP, 'slots', dict(inner=inner), budget=b, bound=dict(lifetimes=3, key_indices='solver-chosen from {0,2,5}', items=4)))
    wide = ('scan_add', 'lag1_sum', 'duc', 'batch2_sum', 'tee_zip', 'tee_cl', 'nested_split', 'distinct', 'take2', 'pad_start_nv', 'start_with', 'last', 'to_list_sum', 'nested_tsplit')
    core8 = ('scan_add', 'lag1_sum', 'duc', 'batch2_sum', 'tee_zip', 'nested_split', 'last', 'nested_tsplit')
    for inner in (core8 if q else wide):
        ks = (9, 17) if q else (9, 10, 17, 33, 65, 129)
        if q and inner in ('scan_add', 'lag1_sum', 'batch2_sum'):
            ks = (9, 17, 65)
        if inner == 'nested_tsplit':
            ks = (9,) if q else (9, 17)
        for k in ks:
            obs.append(Ob(PROP, 'many_keys', dict(inner=inner, k=k), budget=b * 2, group='many live keys', bound=dict(live_keys=k, inner=C.show(INNERS[inner]), items='symbolic values, fixed schedule')))
        ls = (18,) if q else (18, 40, 260)
        if q and inner == 'tee_zip':
            ls = (18, 40, 260)
        for l in ls:
            obs.append(Ob(PROP, 'many_lifetimes', dict(inner=inner, l=l), budget=b * 2 if l < 100 else b * 6, group='many lifetimes on one slot', bound=dict(lifetimes=l, inner=C.show(INNERS[inner]))))
        if inner in ('tee_zip', 'tee_cl', 'scan_add', 'nested_split', 'last'):
            for l in ((260,) if q else (18, 40, 260, 520)):
                obs.append(Ob(PROP, 'many_lifetimes', dict(inner=inner, l=l, sparse=True), budget=b * 6, group='many lifetimes on one slot', bound=dict(lifetimes=l, inner=C.show(INNERS[inner]), schedule='one item, a long run of empty lifetimes, single items')))
    obs.append(Ob(PROP, 'confined', dict(parent='roll22', inner='tee_zip', n=4, _twin='reach'), budget=60, expect='refute'))
    obs.append(Ob(PROP, 'slots', dict(inner='scan_add', _twin='reach'), budget=60, expect='refute'))
    return obs
