"""C16 compression round-trips under re-chunking and flags truncated streams."""
import sys

import rxsci.compression.z as Z
import rxsci.compression.zstd as ZS
from vp import drivers as D
from vp.engine import Ob
from vp.harness import mk, fail
from vp import harness
from vp.stubs import streamcodec as S

PROP = 'C16'
META = dict(
    explanation='The real wrapper code of rxsci.compression.z and .zstd runs over StreamCodec, a contract stub of the streaming (de)compressor objects (validated against the real zlib / zstandard at the start of every run: '
                'concatenation, any re-chunking, eof exactly after the trailer, truncation => not eof, gzip magic with wbits = MAX_WBITS|16, output readable by gzip / zstandard as a standalone file, 300 KiB incompressible input). '
                'compress: chunk lengths concrete (empty chunks, empty list), chunk contents and the codec\'s buffering points symbolic - the emitted bytes, concatenated, must be exactly one well-formed stream of the input concatenation, '
                'the emitted bytes are one well-formed stream (container header - gzip framing for z -, payload in order, one end-of-stream marker) of the concatenation of the chunks. decompress: a well-formed stream with symbolic payload is re-chunked at two solver-chosen cuts - '
                'the outputs concatenate to the payload and the observable completes. truncation: a solver-chosen truncation point (and one cut) must make decompress signal on_error and never on_completed.',
    bounds=dict(quick='compress: <= 3 chunks of <= 2 bytes; decompress/truncation: payload <= 3 bytes, 2 cuts / 1 cut + truncation point; gzip and zstd wrappers', thorough='<= 3 chunks of <= 3 bytes; payload <= 4 bytes'),
    outside='zlib / zstandard themselves (the claim is: rxsci\'s wrapper code is correct for every input within the bound given a codec that honours the stub contract); larger inputs',
    assumptions=['zlib / zstandard streaming objects honour the contract of vp/stubs/streamcodec.py (checked concretely on the real libraries at run start)'],
    stubs=['FakeZlib replaces the zlib name in rxsci.compression.z', 'FakeZstd replaces the zstandard name in rxsci.compression.zstd'],
)


def _sel(x, n):
    for j in range(n - 1):
        if x <= j:
            return j
    return n - 1


def _env(codec):
    rec = S.Recorder()
    if codec == 'gzip':
        mod, attr, fake, hdr, wrapper = sys.modules['rxsci.compression.z'], 'zlib', S.FakeZlib(rec), S.GZIP, Z
    else:
        mod, attr, fake, hdr, wrapper = sys.modules['rxsci.compression.zstd'], 'zstandard', S.FakeZstd(rec), S.ZSTD, ZS
    return rec, mod, attr, fake, hdr, wrapper


def _with(mod, attr, fake, f):
    with harness.stubbed([(mod.__name__, attr, fake)]):
        return f()


def _run(chunks, op):
    out, done = [], []
    D.src(chunks).pipe(op).subscribe(on_next=out.append, on_error=lambda e: done.append('E'), on_completed=lambda: done.append('C'))
    return out, done


def compress(p):
    codec, lens = p['codec'], p['lens']
    nb = sum(lens)
    total = 2 + 2 * nb + 1
    sig = [('b%d' % i, 'int') for i in range(nb)] + [('q%d' % i, 'int') for i in range(len(lens))]
    pre = ['0 <= b%d <= 255' % i for i in range(nb)] + ['0 <= q%d <= %d' % (i, total) for i in range(len(lens))]

    def body(a):
        chunks = []
        k = 0
        for l in lens:
            chunks.append(bytes(a[k:k + l]))
            k += l
        rec, mod, attr, fake, hdr, wrapper = _env(codec)
        rec.cuts = [_sel(a[nb + i], total + 1) for i in range(len(lens))]
        out, done = _with(mod, attr, fake, lambda: _run(chunks, wrapper.compress()))
        whole = b''.join(out)
        exp = S.stream(hdr, b''.join(chunks))
        # the statement is about the stream, not about how the codec is driven: one well-formed stream (container header - gzip framing for z -, the payload
        # bytes in order, one end-of-stream marker) of the concatenation of the chunks, then completion.  How many compress() calls carried the data is free.
        if done != ['C'] or whole != exp:
            return fail(codec=codec, chunks=chunks, observed=whole, expected=exp, done=done, calls=[c for c in rec.calls if c[0] in ('compress', 'flush')])
        return True
    return mk('compress', sig, pre, body)


def decompress(p):
    """params: codec, n (payload bytes), mode cuts|trunc"""
    codec, n, mode = p['codec'], p['n'], p['mode']
    total = 2 + 2 * n + 1
    sig = [('b%d' % i, 'int') for i in range(n)] + [('x1', 'int'), ('x2', 'int')]
    pre = ['0 <= b%d <= 255' % i for i in range(n)] + ['0 <= x1 <= %d' % total, '0 <= x2 <= %d' % total]

    def body(a):
        payload = bytes(a[:n])
        rec, mod, attr, fake, hdr, wrapper = _env(codec)
        whole = S.stream(hdr, payload)
        c1 = _sel(a[n], total + 1)
        c2 = c1 + _sel(a[n + 1], total - c1 + 1)
        if mode == 'cuts':
            chunks = [whole[:c1], whole[c1:c2], whole[c2:]]
            out, done = _with(mod, attr, fake, lambda: _run(chunks, wrapper.decompress()))
            got = b''.join(out)
            if done != ['C'] or got != payload:
                return fail(codec=codec, payload=payload, chunks=chunks, observed=got, done=done)
            return True
        # truncated at c2 (< total), delivered in two chunks
        if c2 >= total:
            return True
        chunks = [whole[:c1], whole[c1:c2]]
        out, done = _with(mod, attr, fake, lambda: _run(chunks, wrapper.decompress()))
        if done != ['E']:
            return fail(codec=codec, payload=payload, truncated_at=c2, chunks=chunks, observed=out, done=done, expected='on_error, no completion')
        got = b''.join(out)
        if got != payload[:len(got)]:
            return fail(codec=codec, payload=payload, truncated_at=c2, observed=got, problem='bytes emitted before the error are not a prefix of the payload')
        return True
    return mk('decompress', sig, pre, body)


def decompress_big(p):
    """compressible data: a run token expands to C bytes (C around and above 2^20) followed by one symbolic byte; the stream is cut at two solver-chosen
    positions.  The payload must come out complete and in order, and the stream must complete - however the wrapper sizes its calls to the decompressor"""
    codec, C = p['codec'], p['count']
    total = 2 + 5 + 2 + 1
    sig = [('b', 'int'), ('x1', 'int'), ('x2', 'int')]
    pre = ['0 <= b <= 255', '0 <= x1 <= %d' % total, '0 <= x2 <= %d' % total]

    def body(a):
        b = a[0]
        rec, mod, attr, fake, hdr, wrapper = _env(codec)
        whole = S.stream_runs(hdr, [(C, 65), (1, b)])
        c1 = _sel(a[1], total + 1)
        c2 = c1 + _sel(a[2], total - c1 + 1)
        chunks = [whole[:c1], whole[c1:c2], whole[c2:]]
        out, done = _with(mod, attr, fake, lambda: _run(chunks, wrapper.decompress()))
        n = 0
        for piece in out:
            n += len(piece)
        if done != ['C'] or n != C + 1:
            return fail(codec=codec, run=C, chunks=chunks, observed_bytes=n, expected_bytes=C + 1, done=done)
        # content: everything but the last byte is the run, the last byte is the symbolic one
        last = [pc for pc in out if len(pc) > 0][-1]
        if last[len(last) - 1] != b:
            return fail(codec=codec, run=C, problem='last byte', observed=last[len(last) - 1], expected=b)
        seen = 0
        for piece in out:
            k = len(piece) if seen + len(piece) <= C else C - seen
            if k > 0 and piece[:k] != b'A' * k:
                return fail(codec=codec, run=C, problem='run content')
            seen += len(piece)
        return True
    return mk('decompress_big', sig, pre, body)


def stub_valid(p):
    def run():
        r = S.validate()
        # and the real wrappers against the real libraries on one multi-chunk message (sanity, not verdict)
        if r is None:
            import gzip
            msg = [b'hello ' * 1000, b'', b'world' * 3000]
            out, done = _run(msg, Z.compress())
            if done != ['C'] or gzip.decompress(b''.join(out)) != b''.join(msg):
                r = 'real z.compress output is not a gzip file'
        return dict(verdict='CONFIRMED' if r is None else 'INCONCLUSIVE', reason=None if r is None else 'stub invalid: ' + r, paths=0, solver_queries=0, solver_s=0.0)
    return run


class RealReplay(object):
    """the real wrappers over the real zlib / zstandard on concrete chunkings that mirror the shapes the symbolic obligations quantify over
    (every cut pair of a short stream incl. empty chunks before / between / after the data, every truncation point): the replay target on the
    real build for counterexamples found over the stub.  A concrete run, not the deciding step."""

    def __init__(self, p):
        self.p = p

    def _cases(self):
        import itertools
        for codec, mod in (('gzip', Z), ('zstd', ZS)):
            for msg in ([], [b''], [b'ab'], [b'a', b'', b'bc'], [b'A' * (3 * 2 ** 20 + 5), b'z']):     # the last one: compressible data, a few stream bytes expand to megabytes
                comp, done = _run(msg, mod.compress())
                whole = b''.join(comp)
                n = len(whole)
                cuts = sorted(set([0, 1, 2, n // 2, n - 1, n]))
                for c1, c2 in itertools.combinations_with_replacement(cuts, 2):
                    yield codec, mod, msg, [whole[:c1], whole[c1:c2], whole[c2:]], None
                    yield codec, mod, msg, [whole[:c1], whole[c1:c2], whole[c2:], b''], None
                for t in cuts[:-1]:
                    yield codec, mod, msg, [whole[:t // 2], whole[t // 2:t]], 'trunc'

    def __call__(self):
        n = 0
        for codec, mod, msg, chunks, kind in self._cases():
            n += 1
            out, done = _run(chunks, mod.decompress())
            if kind == 'trunc':
                ok = done == ['E']
            else:
                ok = done == ['C'] and b''.join(out) == b''.join(msg)
            if not ok:
                return dict(verdict='REFUTED', paths=n, solver_queries=0, solver_s=0.0, cex=dict(args=[dict(codec=codec, msg=[list(m) if len(m) < 64 else dict(repeat=m[0], count=len(m)) for m in msg], chunks=[list(c) for c in chunks], kind=kind)], kwargs={}),
                            detail=dict(codec=codec, message=repr(msg), chunks=repr(chunks), observed=repr(b''.join(out)), done=done, expected='on_error' if kind else 'payload then on_completed'))
        return dict(verdict='CONFIRMED', paths=n, solver_queries=0, solver_s=0.0)

    def replay(self, args):
        a = args[0]
        mod = Z if a['codec'] == 'gzip' else ZS
        chunks = [bytes(c) for c in a['chunks']]
        msg = b''.join(bytes([m['repeat']]) * m['count'] if isinstance(m, dict) else bytes(m) for m in a['msg'])
        out, done = _run(chunks, mod.decompress())
        ok = (done == ['E']) if a['kind'] else (done == ['C'] and b''.join(out) == msg)
        return dict(reproduced=not ok, detail=dict(observed=repr(b''.join(out)), done=done))


FAMILIES = {'decompress_big': decompress_big, 'compress': compress, 'decompress': decompress, 'stub_valid': stub_valid, 'real_replay': RealReplay}


def obligations(tier, seed):
    obs = [Ob(PROP, 'stub_valid', {}, kind='direct', budget=120, group='stub validation'),
           Ob(PROP, 'real_replay', {}, kind='direct', budget=120, group='real-library replay scenarios')]
    q = tier == 'quick'
    b = 240 if q else 1500
    shapes = [[], [0], [1], [2], [1, 1], [0, 2], [2, 0], [1, 0, 1]] if q else [[], [0], [1], [2], [3], [1, 1], [0, 2], [2, 0], [1, 0, 1], [2, 2], [1, 2, 1]]
    for codec in ('gzip', 'zstd'):
        for lens in shapes:
            obs.append(Ob(PROP, 'compress', dict(codec=codec, lens=lens), budget=b, group='compress', bound=dict(codec=codec, chunk_lengths=lens, buffering='symbolic')))
        for n in range(0, (3 if q else 4) + 1):
            for mode in ('cuts', 'trunc'):
                obs.append(Ob(PROP, 'decompress', dict(codec=codec, n=n, mode=mode), budget=b, group='decompress:' + mode, bound=dict(codec=codec, payload_bytes=n, mode=mode)))
    for codec in ('gzip', 'zstd'):
        for count in ((2 ** 20 + 1, 3 * 2 ** 20 + 5) if q else (2 ** 20 - 1, 2 ** 20, 2 ** 20 + 1, 3 * 2 ** 20 + 5, 2 ** 16 + 1, 2 ** 23 + 3)):
            obs.append(Ob(PROP, 'decompress_big', dict(codec=codec, count=count), budget=b * 2, group='decompress: compressible data', bound=dict(codec=codec, run_bytes=count, symbolic='last byte and both cut positions')))
    obs.append(Ob(PROP, 'decompress', dict(codec='gzip', n=2, mode='trunc', _twin='reach'), budget=60, expect='refute'))
    obs.append(Ob(PROP, 'compress', dict(codec='zstd', lens=[1, 1], _twin='reach'), budget=60, expect='refute'))
    return obs
