"""C11 streaming promptness: results are emitted with the item that determines them."""
import random

from vp import catalog as C
from vp import drivers as D
from vp import refsem as R
from vp.engine import Ob
from vp.harness import mk, fail, ints
from vp.props.common import refdiff, compare

PROP = 'C11'
META = dict(
    explanation='The source is a Subject pushed one item at a time; a recorder at the final subscriber stamps every output with the number of source items pushed so far (END for completion). '
                'The timed trace of the real pipeline on N symbolic integer items must equal the timed trace of the event-level reference interpreter, as a multiset per source position '
                '(the order between different lifetimes inside one source event is not specified and is not compared). Programs: every catalogue operator alone (multiplexed; the dual-mode ones also on plain observables), '
                'the keyed operators (group_by, roll, split, time_split) around reducing and streaming inner pipelines, tee_map with the three joins, and seeded random compositions to depth 3. '
                'The carve-out of the statement (mux take/first do not end a key early) is part of the reference semantics.',
    bounds=dict(quick='N <= 4 items (any ints; non-decreasing where time_split is involved), ~45 single operators + ~45 keyed programs + 60 seeded compositions (VERIF_SEED)',
                thorough='N <= 5, ~400 seeded compositions'),
    outside='programs not enumerated; N above the bound; order-sensitive continuations after overlapping roll windows (unspecified intra-event order)',
    assumptions=['reference interpreter vp/refsem.py transcribes intended emission times (validated against the repository test-suite literals and 6000 random concrete runs during design)'],
    stubs=[],
)


def prog(p):
    q = dict(p)
    q['mode'] = 'per_t'
    q['nondecr'] = C.has_tsplit(p['desc'])
    return refdiff(q)


def plain(p):
    """dual-mode operator alone on a plain observable (n >= 1)"""
    desc, n = p['desc'], p['n']

    def body(a):
        items = list(a)
        real, ref = C.build(desc)
        got = D.run_timed(items, real, mux=False)
        exp = R.run(ref, items)
        if compare(got, exp, 'per_t'):
            return True
        return fail(pipeline=C.show(desc), mode='plain observable', items=items, observed=got, expected=exp)
    return mk('plain_timed', ints('v', n), ['-2 ** 40 <= v%d <= 2 ** 40' % i for i in range(n)], body)


def plain_take(p):
    """plain observables: take(k) / first() complete the stream at the k-th item, so a completion-triggered consumer behind them emits at that item
    (not one item later, and not only at the end of the source)"""
    import rxsci as rs
    k, consumer, n = p['k'], p['consumer'], p['n']

    def cons():
        return {'last': [rs.ops.last()], 'to_list': [rs.data.to_list(), rs.ops.map(C._lsum)], 'count_r': [rs.ops.count(reduce=True)], 'sum_r': [rs.ops.scan(lambda a, i: a + i, seed=0, reduce=True)]}[consumer]

    def body(a):
        items = list(a)
        head = [rs.ops.first()] if k == 'first' else [rs.ops.take(k)]
        kk = 1 if k == 'first' else k
        got = D.run_timed(items, head + cons(), mux=False)
        pre = items[:kk]
        t = kk - 1 if len(items) >= kk else len(items)
        val = {'last': lambda l: l[-1], 'to_list': C._lsum, 'count_r': len, 'sum_r': sum}[consumer](pre)
        exp = [(t, val)]
        return got == exp or fail(pipeline='%s > %s (plain observable)' % (k, consumer), items=items, observed=got, expected=exp)
    return mk('plain_take', ints('v', n), ['-2**40 <= v%d <= 2**40' % i for i in range(n)], body)


FAMILIES = {'prog': prog, 'plain': plain, 'plain_take': plain_take}

INNERS = [[['scan_add_r']], [['scan_add']], [['to_list_sum']], [['batch2_sum']], [['take1'], ['last']], [['filter_even'], ['count_r']], [['first']]]


def programs(tier, seed):
    r = random.Random(1000 + seed)
    progs = []
    for k in C.INT_LEAVES:
        progs.append(('leaf', [[k]]))
    for k in C.KEYED:
        for inner in (INNERS if tier != 'quick' else INNERS[:4]):
            progs.append(('keyed', [list(k) + [inner]]))
    for j in ('zip', 'merge', 'combine_latest'):
        progs.append(('tee', [['tee', j, [[['filter_even']], [['scan_add']]]]]))
        progs.append(('tee', [['tee', j, [[['count_r']], [['batch2_sum']], [['identity']]]]]))
    progs.append(('comp', [['split', 'tup3', [['last']]], ['scan_add']]))
    progs.append(('comp', [['roll', 3, 2, [['filter_even'], ['scan_add_r']]]]))
    seen = set()
    want = 60 if tier == 'quick' else 400
    tries = 0
    while len(seen) < want and tries < 20000:
        tries += 1
        d = C.gen(r, r.choice([1, 2, 2]))
        key = repr(d)
        if key in seen or C.depth_of(d) < 2 and len(d) < 2:
            continue
        if C.branching(d) ** 3 > (150 if tier == 'quick' else 500):
            continue
        seen.add(key)
        progs.append(('seeded', d))
    return progs


def obligations(tier, seed):
    obs = []
    q = tier == 'quick'
    for kind, d in programs(tier, seed):
        ns = {'leaf': (4,) if q else (3, 5), 'keyed': (4,) if q else (3, 5), 'tee': (3, 4) if q else (4, 5), 'comp': (4,) if q else (5,), 'seeded': (3,) if q else (3, 4)}[kind]
        for n in ns:
            obs.append(Ob(PROP, 'prog', dict(desc=d, n=n), budget=120 if q else 900, group='prog:' + kind,
                          bound=dict(items=n, values='any int', pipeline=C.show(d))))
    for k in C.DUAL:
        if k == 'progress':
            continue
        obs.append(Ob(PROP, 'plain', dict(desc=[[k]], n=3 if q else 4), budget=120 if q else 600, bound=dict(items=3 if q else 4, pipeline=k)))
    for k in (1, 2, 'first'):
        for consumer in ('last', 'to_list', 'count_r', 'sum_r'):
            for n in ((3,) if q else (2, 3, 4)):
                if k != 'first' and n < k:
                    continue
                obs.append(Ob(PROP, 'plain_take', dict(k=k, consumer=consumer, n=n), budget=120 if q else 600, group='plain take/first + completion-triggered consumer', bound=dict(items=n, take=k, consumer=consumer)))
    obs.append(Ob(PROP, 'prog', dict(desc=[['roll', 3, 2, [['filter_even'], ['scan_add_r']]]], n=4, _twin='reach'), budget=60, expect='refute'))
    return obs
