"""C11 streaming promptness: results are emitted with the item that determines them."""
import random

from vp import catalog as C
from vp import drivers as D
from vp import refsem as R
from vp.engine import Ob
from vp.harness import mk, fail, ints
from vp.props.common import refdiff, compare

PROP = 'C11'
META = dict(
    explanation='The source is a Subject pushed one item at a time; a recorder at the final subscriber stamps every output with the number of source items pushed so far (END for completion). '
                'The timed trace of the real pipeline on N symbolic integer items must equal the timed trace of the event-level reference interpreter, as a multiset per source position '
                '(the order between different lifetimes inside one source event is not specified and is not compared). Programs: every catalogue operator alone (multiplexed; the dual-mode ones also on plain observables), '
                'the keyed operators (group_by, roll, split, time_split) around reducing and streaming inner pipelines, tee_map with the three joins, and seeded random compositions to depth 3. '
                'The carve-out of the statement (mux take/first do not end a key early) is part of the reference semantics.',
    bounds=dict(quick='N <= 4 items (any ints; non-decreasing where time_split is involved), ~45 single operators + ~45 keyed programs + 60 seeded compositions (VERIF_SEED)',
                thorough='N <= 5, ~400 seeded compositions'),
    outside='programs not enumerated; N above the bound; order-sensitive continuations after overlapping roll windows (unspecified intra-event order)',
    assumptions=['reference interpreter vp/refsem.py transcribes intended emission times (validated against the repository test-suite literals and 6000 random concrete runs during design)'],
    stubs=[],
)


def prog(p):
    q = dict(p)
    q['mode'] = 'per_t'
    q['nondecr'] = C.has_tsplit(p['desc'])
    return refdiff(q)


def plain(p):
    """dual-mode operator alone on a plain observable (n >= 1)"""
    desc, n = p['desc'], p['n']

    def body(a):
        items = list(a)
        real, ref = C.build(desc)
        got = D.run_timed(items, real, mux=False)
        exp = R.run(ref, items)
        if compare(got, exp, 'per_t'):
            return True
        return fail(pipeline=C.show(desc), mode='plain observable', items=items, observed=got, expected=exp)
    return mk('plain_timed', ints('v', n), ['-2 ** 40 <= v%d <= 2 ** 40' % i for i in range(n)], body)


FAMILIES = {'prog': prog, 'plain': plain}

INNERS = [[['scan_add_r']], [['scan_add']], [['to_list_sum']], [['batch2_sum']], [['take1'], ['last']], [['filter_even'], ['count_r']], [['first']]]


def programs(tier, seed):
    r = random.Random(1000 + seed)
    progs = []
    for k in C.INT_LEAVES:
        progs.append(('leaf', [[k]]))
    for k in C.KEYED:
        for inner in (INNERS if tier != 'quick' else INNERS[:4]):
            progs.append(('keyed', [list(k) + [inner]]))
    for j in ('zip', 'merge', 'combine_latest'):
        progs.append(('tee', [['tee', j, [[['filter_even']], [['scan_add']]]]]))
        progs.append(('tee', [['tee', j, [[['count_r']], [['batch2_sum']], [['identity']]]]]))
    progs.append(('comp', [['split', 'tup3', [['last']]], ['scan_add']]))
    progs.append(('comp', [['roll', 3, 2, [['filter_even'], ['scan_add_r']]]]))
    seen = set()
    want = 60 if tier == 'quick' else 400
    tries = 0
    while len(seen) < want and tries < 20000:
        tries += 1
        d = C.gen(r, r.choice([1, 2, 2]))
        key = repr(d)
        if key in seen or C.depth_of(d) < 2 and len(d) < 2:
            continue
        if C.branching(d) ** 3 > (150 if tier == 'quick' else 500):
            continue
        seen.add(key)
        progs.append(('seeded', d))
    return progs


def obligations(tier, seed):
    obs = []
    q = tier == 'quick'
    for kind, d in programs(tier, seed):
        ns = {'leaf': (4,) if q else (3, 5), 'keyed': (4,) if q else (3, 5), 'tee': (3, 4) if q else (4, 5), 'comp': (4,) if q else (5,), 'seeded': (3,) if q else (3, 4)}[kind]
        for n in ns:
            obs.append(Ob(PROP, 'prog', dict(desc=d, n=n), budget=120 if q else 900, group='prog:' + kind,
                          bound=dict(items=n, values='any int', pipeline=C.show(d))))
    for k in C.DUAL:
        if k == 'progress':
            continue
        obs.append(Ob(PROP, 'plain', dict(desc=[[k]], n=3 if q else 4), budget=120 if q else 600, bound=dict(items=3 if q else 4, pipeline=k)))
    obs.append(Ob(PROP, 'prog', dict(desc=[['roll', 3, 2, [['filter_even'], ['scan_add_r']]]], n=4, _twin='reach'), budget=60, expect='refute'))
    return obs
