"""C19 JSON-lines dump/load round-trips objects, with or without compression."""
import sys

from rx.scheduler import ImmediateScheduler
import rxsci as rs
import rxsci.container.json as J
import rxsci.framing.line as LINE
from vp import drivers as D
from vp.engine import Ob
from vp.harness import mk, fail
from vp import harness
from vp.stubs import codecs_model, linejson, shortread, streamcodec

PROP = 'C19'
XNAME = '/var/tmp/vp-c19-x.json'      # never created on a tree that honours open_obj (a change that ignores open_obj writes a real file there, not into /verif)
META = dict(
    explanation='The real glue code of rxsci.container.json (dump, load, dump_to_file, load_from_file and the pipelines they compose: dump -> encode -> compress -> file.write; file.read -> decompress -> decode -> line.unframe -> load) '
                'runs over contract stubs of everything implemented in C: LineJSON for the serializer (dumps = injective newline-free text, bytes-like under the orjson flag; loads its inverse), the incremental codec models of C17, '
                'StreamCodec of C16 for gzip/zstd and file objects with short reads (the 64 KiB read boundary becomes a cut at a small size). Items are symbolic texts standing for serialized objects (any character, raw newline, quote, backslash, non-ASCII, astral). '
                'Asserted: the loaded items equal the dumped items, in order, one per object; an empty source gives a file that loads to nothing; every compression setting; file object and custom open_obj (opened once in binary mode, closed - and nothing written afterwards - by the time completion is signalled); utf-8 and utf-16 text encodings.',
    bounds=dict(quick='<= 2 objects of <= 1 symbolic character (3 objects of 0 characters), short reads at c1 and c1+1 (a one-byte chunk after a partial line / partial character) for every byte position c1 of the file (one obligation each for the uncompressed form, every 3rd position for compressed forms)',
                thorough='<= 3 objects, <= 2 characters each'),
    outside='orjson / json, CPython codecs, zlib / zstandard themselves (contract-stubbed, each validated against the real library at run start); lines=False mode; skip / ignore_error options',
    assumptions=['serializer contract: vp/stubs/linejson.py (validated on orjson and json with newline / quote / non-ASCII payloads)', 'codec models of C17, StreamCodec of C16, ShortReadFile of C18'],
    stubs=['LineJSON', 'FakeCodecs', 'FakeZlib / FakeZstd', 'ShortReadFile / WriteBuffer'],
)


class Env(object):
    """install all stubs for the duration of one harness run"""

    def __init__(self, as_bytes):
        self.rec = streamcodec.Recorder()
        self.js = linejson.LineJSON(as_bytes)
        self.as_bytes = as_bytes

    def __enter__(self):
        self.ctx = harness.stubbed([
            ('rxsci.container.json', 'json', self.js), ('rxsci.container.json', 'serialization_as_string', not self.as_bytes),
            ('rxsci.data.codec', 'codecs', codecs_model.FakeCodecs),
            ('rxsci.compression.z', 'zlib', streamcodec.FakeZlib(self.rec)), ('rxsci.compression.zstd', 'zstandard', streamcodec.FakeZstd(self.rec))])
        self.ctx.__enter__()
        return self

    def __exit__(self, *a):
        self.ctx.__exit__()
        return False


def lines(p):
    lens, as_bytes = p['lens'], p['as_bytes']
    sig = [('s%d' % i, 'str') for i in range(len(lens))]
    pre = ['len(s%d) == %d' % (i, l) for i, l in enumerate(lens)]

    def body(a):
        items = list(a)
        with Env(as_bytes):
            out = []
            D.src(items).pipe(J.dump()).subscribe(on_next=out.append, on_error=lambda e: out.append(('ERR', repr(e))))
            if len(out) != len(items) or not all(isinstance(l, str) for l in out):
                return fail(stage='dump', problem='one text item per object expected', items=items, observed=out)
            # the dumped lines go through the real line un-framer (the composition load_from_file uses): raw newlines inside an object must not break the framing
            got = []
            D.src(out).pipe(LINE.unframe(), J.load()).subscribe(on_next=got.append, on_error=lambda e: got.append(('ERR', repr(e))))
        return got == items or fail(items=items, lines=out, observed=got, expected=items)
    return mk('json_lines', sig, pre, body)


def file_rt(p):
    """params: lens, compression, c1 (short read position), as_bytes, open_obj (bool)"""
    lens, comp, c1, as_bytes = p['lens'], p['compression'], p['c1'], p['as_bytes']
    enc = p.get('encoding', 'utf-8')
    sig = [('s%d' % i, 'str') for i in range(len(lens))]
    pre = ['len(s%d) == %d' % (i, l) for i, l in enumerate(lens)]

    def body(a):
        items = list(a)
        for it in items:
            for ch in it:
                if 0xD800 <= ord(ch) <= 0xDFFF:
                    return True       # lone surrogates are not Unicode scalar values: no encoding represents them
        with Env(as_bytes) as env:
            wb = shortread.WriteBuffer(b'')
            done = []
            if p.get('open_obj'):
                opened = []

                def wopen(name, mode, encoding=None):
                    opened.append((name, mode))
                    return wb
                target, kw = XNAME, dict(open_obj=wopen)
            else:
                target, kw = wb, {}
            # at the moment completion is signalled the file must be complete: a consumer may read it back from the completion notification
            D.src(items).pipe(J.dump_to_file(target, compression=comp, encoding=enc, **kw)).subscribe(on_error=lambda e: done.append(('ERR', repr(e))),
                                                                                                   on_completed=lambda: done.append(('C', wb.closed, len(wb.parts))))
            data = wb.value()
            if len(done) != 1 or done[0][0] != 'C':
                return fail(stage='dump_to_file', items=items, done=done)
            if done[0][2] != len(wb.parts):
                return fail(stage='dump_to_file', problem='data written after completion was signalled', done=done, parts=len(wb.parts))
            if p.get('open_obj') and (opened != [(XNAME, 'wb')] or not wb.closed or not done[0][1]):
                return fail(stage='dump_to_file', problem='open_obj protocol: the file opened through open_obj must be closed when completion is signalled', opened=opened, closed_at_completion=done[0][1], closed=wb.closed)
            f = shortread.ShortReadFile(data, [c1, c1 + 1])     # ...c1 | one byte | rest
            if p.get('open_obj'):
                source, kw2 = XNAME, dict(open_obj=lambda name, mode, encoding=None: f)
            else:
                source, kw2 = f, {}
            got = []
            end = []
            J.load_from_file(source, compression=comp, encoding=enc, **kw2).subscribe(on_next=got.append, on_error=lambda e: end.append(('ERR', repr(e))), on_completed=lambda: end.append('C'),
                                                                        scheduler=ImmediateScheduler())
        if got != items or end != ['C']:
            return fail(items=items, compression=comp, file_bytes=data, short_read_at=c1, observed=got, expected=items, end=end)
        return True
    return mk('json_file', sig, pre, body)


def stub_valid(p):
    def run():
        r = linejson.validate() or codecs_model.validate() or streamcodec.validate() or (None if shortread.validate() else 'ShortReadFile')
        if r is None:
            r = _real_sanity()
        return dict(verdict='CONFIRMED' if r is None else 'INCONCLUSIVE', reason=None if r is None else 'stub invalid: ' + str(r), paths=0, solver_queries=0, solver_s=0.0)
    return run


def _real_sanity():
    """the real libraries end to end through a real file crossing the 64 KiB read chunk (sanity, not verdict)"""
    import os
    import tempfile
    items = [{'i': i, 's': 'é\n"\\' * (i % 7), 'u': '\U00010000' * 3, 'l': [1, 2.5, None, {'k': True}]} for i in range(3000)]
    for comp in (None, 'gzip', 'zstd'):
        fd, path = tempfile.mkstemp(prefix='vp-json-', dir='/var/tmp')
        os.close(fd)
        try:
            done = []
            D.src(items).pipe(J.dump_to_file(path, compression=comp)).subscribe(on_error=lambda e: done.append(repr(e)), on_completed=lambda: done.append('C'))
            got = []
            J.load_from_file(path, compression=comp).subscribe(on_next=got.append, on_error=lambda e: done.append(repr(e)), scheduler=ImmediateScheduler())
            if done != ['C'] or got != items or (comp is None and os.path.getsize(path) < 128 * 1024):
                return 'real pipeline round trip failed for compression=%s: %r' % (comp, done[:2])
        finally:
            os.unlink(path)
    return None


FAMILIES = {'lines': lines, 'file_rt': file_rt, 'stub_valid': stub_valid}


def obligations(tier, seed):
    obs = [Ob(PROP, 'stub_valid', {}, kind='direct', budget=120, group='stub validation')]
    q = tier == 'quick'
    b = 240 if q else 1500
    shapes = [[], [0], [1], [1, 1], [0, 0, 0], [2]] if q else [[], [0], [1], [2], [1, 1], [0, 0, 0], [2, 1], [1, 1, 1], [2, 2]]
    for lens in shapes:
        for as_bytes in (True, False):
            obs.append(Ob(PROP, 'lines', dict(lens=lens, as_bytes=as_bytes), budget=b, group='lines', bound=dict(object_chars=lens, serializer_returns='bytes' if as_bytes else 'str')))
    fshapes = [[], [0], [1], [1, 1], [0, 0, 0]] if q else [[], [0], [1], [2], [1, 1], [0, 0, 0], [2, 1], [1, 1, 1]]
    for lens in fshapes:
        base = sum(2 + 4 * l for l in lens)          # 'J' + text + newline, <= 4 bytes per character (+1 for an escape)
        for comp in (None, 'gzip', 'zstd'):
            total = base if comp is None else 3 + 2 * base
            step = 1 if comp is None else 3
            for c1 in range(1, max(total, 2) + 1, step):
                if q and comp is not None and sum(lens) >= 2 and c1 % 2 == 0:
                    continue
                obs.append(Ob(PROP, 'file_rt', dict(lens=lens, compression=comp, c1=c1, as_bytes=True), budget=b, group='file:' + str(comp),
                              bound=dict(object_chars=lens, compression=comp, short_read_at=c1)))
        obs.append(Ob(PROP, 'file_rt', dict(lens=lens, compression=None, c1=2, as_bytes=False, open_obj=True), budget=b, group='file:open_obj', bound=dict(object_chars=lens, custom_open_obj=True)))
        for comp in ('gzip', 'zstd'):
            obs.append(Ob(PROP, 'file_rt', dict(lens=lens, compression=comp, c1=3, as_bytes=True, open_obj=True), budget=b, group='file:open_obj', bound=dict(object_chars=lens, custom_open_obj=True, compression=comp)))
        if sum(lens) <= 1 or not q:
            for comp in (None, 'gzip'):
                for c1 in (3, 4, 7):
                    obs.append(Ob(PROP, 'file_rt', dict(lens=lens, compression=comp, c1=c1, as_bytes=True, encoding='utf-16'), budget=b, group='file:utf-16', bound=dict(object_chars=lens, encoding='utf-16', compression=comp, short_read_at=c1)))
    obs.append(Ob(PROP, 'file_rt', dict(lens=[1, 1], compression='gzip', c1=5, as_bytes=True, _twin='reach'), budget=60, expect='refute'))
    return obs
