"""C15 framing round-trips under any re-chunking of the framed stream."""
import sys

import rxsci as rs
import rxsci.framing.line as line
import rxsci.framing.length_prefix as lp
from vp import drivers as D
from vp.engine import Ob
from vp.harness import mk, fail
from vp import harness
from vp.stubs import tinyio

PROP = 'C15'
META = dict(
    explanation='Line framing: one symbolic text of concrete length L (every character a solver variable over the whole str alphabet, newlines wherever the solver puts them) is cut at two positions (first concrete per obligation, second symbolic; empty chunks included) '
                'and fed to the real line.unframe: the emitted lines (on a subscription that follows an aborted one of the same operator object) must be text.split("\\n") without a trailing empty piece - in particular an unterminated last line is delivered at completion. A second form frames n symbolic newline-free items with the real frame, '
                're-cuts the concatenation and unframes. Length-prefix framing: items with symbolic payload bytes are framed by the real frame (prefix 1/2/4/8 bytes, little/big endian), the concatenation is cut at two solver-chosen positions '
                '(inside a prefix, between prefix and payload, inside a payload) and the real unframe must return the items in order; with a solver-chosen truncation point exactly the completely received frames are delivered and an incomplete trailing frame never is; with symbolic prefix bytes (any announced length the prefix can carry) followed by one payload byte, only lengths 0 and 1 deliver anything.',
    bounds=dict(quick='line: L <= 4 characters, 2 cuts; items: <= 2 items of <= 2 chars; length-prefix: <= 2 items of <= 2 bytes (3 for prefix 1), all cut pairs, all truncation points, 4 prefix sizes x 2 byte orders',
                thorough='line: L <= 6, 3 cuts for L <= 4; length-prefix: <= 3 items of <= 2 bytes, 3 cuts'),
    outside='items longer than the bound; length-prefix items of 2^(8*prefix) bytes and more (frame compares len > mtu where >= is meant: needs a 256-byte item at least)',
    assumptions=['io.BytesIO behaves as vp/stubs/tinyio.py TinyBytesIO (validated against the real io.BytesIO at the start of every run)'],
    stubs=['TinyBytesIO replaces the io name inside rxsci.framing.length_prefix'],
)


def _sel(x, n):
    for j in range(n - 1):
        if x <= j:
            return j
    return n - 1


def _run(chunks, op):
    # retry history: the same observable first serves a subscription that fails at the rx level after its first chunk: buffers must not survive it
    obs_ = D.flaky_src(chunks, 1).pipe(op)
    obs_.subscribe(on_next=lambda i: None, on_error=lambda e: None)
    out = []
    obs_.subscribe(on_next=out.append, on_error=lambda e: out.append(('ERR', repr(e))), on_completed=lambda: out.append('END'))
    return out


def line_rechunk(p):
    L, c1 = p['L'], p['c1']
    three = p.get('c3', False)

    def body(a):
        text, x2 = a[0], a[1]
        c2 = c1 + _sel(x2, L - c1 + 1)
        chunks = [text[:c1], text[c1:c2], text[c2:]]
        if three:
            c3 = c2 + _sel(a[2], L - c2 + 1)
            chunks = [text[:c1], text[c1:c2], text[c2:c3], text[c3:]]
        got = _run(chunks, line.unframe())
        exp = text.split('\n')
        if exp[-1] == '':
            exp = exp[:-1]
        exp = exp + ['END']
        return got == exp or fail(text=text, chunks=chunks, observed=got, expected=exp)
    sig = [('text', 'str'), ('x2', 'int')] + ([('x3', 'int')] if three else [])
    pre = ['len(text) == %d' % L, '0 <= x2 <= %d' % L] + (['0 <= x3 <= %d' % L] if three else [])
    return mk('line_rechunk', sig, pre, body)


def line_items(p):
    lens = p['lens']
    n = len(lens)
    total = sum(lens) + n

    def body(a):
        items = list(a[:n])
        for it in items:
            if '\n' in it:
                return True      # precondition: items contain no newline
        framed = _run(items, line.frame())
        if framed[-1] != 'END':
            return fail(stage='frame', observed=framed)
        data = ''.join(framed[:-1])
        c1 = _sel(a[n], total + 1)
        c2 = c1 + _sel(a[n + 1], total - c1 + 1)
        chunks = [data[:c1], data[c1:c2], data[c2:]]
        got = _run(chunks, line.unframe())
        exp = items + ['END']
        return got == exp or fail(items=items, chunks=chunks, observed=got, expected=exp)
    sig = [('s%d' % i, 'str') for i in range(n)] + [('x1', 'int'), ('x2', 'int')]
    pre = ['len(s%d) == %d' % (i, l) for i, l in enumerate(lens)] + ['0 <= x1 <= %d' % total, '0 <= x2 <= %d' % total]
    return mk('line_items', sig, pre, body)


def _with_stub(f):
    # optional: an unframe that does not go through io.BytesIO needs no stub
    with harness.stubbed([('rxsci.framing.length_prefix', 'io', tinyio.FakeIO, True)]):
        return f()


def lp_roundtrip(p):
    """params: lens (payload lengths), prefix, order, mode cuts|trunc"""
    lens, ps, bo, mode = p['lens'], p['prefix'], p['order'], p['mode']
    nb = sum(lens)
    total = nb + ps * len(lens)
    sig = [('b%d' % i, 'int') for i in range(nb)] + [('x1', 'int'), ('x2', 'int')]
    pre = ['0 <= b%d <= 255' % i for i in range(nb)] + ['0 <= x1 <= %d' % total, '0 <= x2 <= %d' % total]

    def body(a):
        items = []
        k = 0
        for l in lens:
            items.append(bytes(a[k:k + l]))
            k += l
        framed = _run(items, lp.frame(prefix_size=ps, byteorder=bo))
        if framed[-1] != 'END' or len(framed) != len(items) + 1:
            return fail(stage='frame', observed=framed)
        data = b''.join(framed[:-1])
        if len(data) != total:
            return fail(stage='frame', problem='framed length', observed=len(data), expected=total)
        c1 = _sel(a[nb], total + 1)
        c2 = c1 + _sel(a[nb + 1], total - c1 + 1)
        if mode == 'cuts':
            chunks = [data[:c1], data[c1:c2], data[c2:]]
            exp = items + ['END']
        else:
            # stream truncated at c2, delivered in two chunks cut at c1: only complete frames come out
            chunks = [data[:c1], data[c1:c2]]
            exp = []
            off = 0
            for it in items:
                off += ps + len(it)
                if off <= c2:
                    exp.append(it)
            exp = exp + ['END']
        got = _with_stub(lambda: _run(chunks, lp.unframe(prefix_size=ps, byteorder=bo)))
        return got == exp or fail(items=items, prefix=ps, order=bo, chunks=chunks, observed=got, expected=exp)
    return mk('lp_roundtrip', sig, pre, body)


def lp_prefix(p):
    """the length carried by a prefix is a solver variable: the prefix bytes are symbolic (any value 0 .. 2^(8*prefix)-1, i.e. also lengths far beyond
    the payload sizes of the other obligations), followed by exactly one payload byte.  unframe must deliver b'' (length 0, then keep the byte as the start of
    the next prefix), the byte (length 1) or nothing (an incomplete frame is never delivered)."""
    ps, bo = p['prefix'], p['order']
    sig = [('b%d' % i, 'int') for i in range(ps)] + [('x', 'int')]
    pre = ['0 <= b%d <= 255' % i for i in range(ps)] + ['0 <= x <= 255']

    def body(a):
        pb, x = list(a[:ps]), a[ps]
        size = 0
        for i, b in enumerate(pb if bo == 'little' else list(reversed(pb))):
            size = size + b * (256 ** i)
        data = bytes(pb) + bytes([x])
        got = _with_stub(lambda: _run([data], lp.unframe(prefix_size=ps, byteorder=bo)))
        if size == 0:
            # the byte after an empty frame starts the next prefix; with a one-byte prefix it IS the next prefix: a zero announces another empty frame
            exp = [b''] + ([b''] if (ps == 1 and x == 0) else []) + ['END']
        elif size == 1:
            exp = [bytes([x]), 'END']
        else:
            exp = ['END']
        return got == exp or fail(prefix_bytes=pb, order=bo, announced_length=size, observed=got, expected=exp)
    return mk('lp_prefix', sig, pre, body)


def line_long(p):
    """a long line (L characters, L crosses 4096) followed by a short one, cut into four chunks at solver-chosen positions next to the thresholds (the text itself is concrete)"""
    L = p['L']

    def body(a):
        x1, x2 = a
        base = ''.join('abcdefghij'[i % 10] for i in range(L))
        text = base + '\n' + 'tail'
        c1 = [1, 2, L - 4096 if L > 4096 else 3][_sel(x1, 3)]
        c2 = c1 + [4095, 4096, 4097][_sel(x2, 3)]
        if c2 > len(text):
            c2 = len(text) - 1
        chunks = [text[:c1], text[c1:c2], text[c2:c2 + 1], text[c2 + 1:]]
        got = _run(chunks, line.unframe())
        exp = [text[:L], 'tail', 'END']
        return got == exp or fail(L=L, cuts=[c1, c2, c2 + 1], observed_lengths=[len(x) if isinstance(x, str) else x for x in got], same=[g == e for g, e in zip(got, exp)])
    return mk('line_long', [('x1', 'int'), ('x2', 'int')], ['0 <= x1 <= 2', '0 <= x2 <= 2'], body)


def stub_valid(p):
    def run():
        ok = tinyio.validate()
        # the repository's own framing scenarios through the stub
        data = [b'\x01\x00\x00\x00a', b'\x02\x00', b'\x00\x00bc\x03\x00\x00\x00de']
        real = _run(data, lp.unframe())
        stub = _with_stub(lambda: _run(data, lp.unframe()))
        ok = ok and real == stub == [b'a', b'bc', 'END']
        return dict(verdict='CONFIRMED' if ok else 'INCONCLUSIVE', reason=None if ok else 'stub invalid: TinyBytesIO disagrees with io.BytesIO', paths=0, solver_queries=0, solver_s=0.0)
    return run


FAMILIES = {'line_rechunk': line_rechunk, 'line_items': line_items, 'lp_roundtrip': lp_roundtrip, 'lp_prefix': lp_prefix, 'line_long': line_long, 'stub_valid': stub_valid}


def obligations(tier, seed):
    obs = [Ob(PROP, 'stub_valid', {}, kind='direct', budget=60, group='stub validation')]
    q = tier == 'quick'
    b = 200 if q else 1200
    for L in range(0, (4 if q else 6) + 1):
        for c1 in range(0, L + 1):
            obs.append(Ob(PROP, 'line_rechunk', dict(L=L, c1=c1), budget=b, group='line_rechunk', bound=dict(text_len=L, first_cut=c1, second_cut='symbolic')))
            if not q and L <= 4:
                obs.append(Ob(PROP, 'line_rechunk', dict(L=L, c1=c1, c3=True), budget=b, group='line_rechunk', bound=dict(text_len=L, first_cut=c1, cuts=3)))
    for lens in ([[0], [1], [2], [0, 0], [1, 0], [0, 1], [1, 1], [2, 1]] if q else [[0], [1], [2], [3], [0, 0], [1, 0], [0, 1], [1, 1], [2, 1], [1, 2], [0, 0, 0], [1, 0, 1], [1, 1, 1]]):
        obs.append(Ob(PROP, 'line_items', dict(lens=lens), budget=b, group='line_items', bound=dict(item_lengths=lens, cuts=2)))
    for ps in (1, 2, 4, 8):
        for bo in ('little', 'big'):
            for lens in ([[], [0], [1], [2, 0], [1, 2]] if q else [[], [0], [1], [2], [2, 0], [0, 0], [1, 2], [2, 2], [1, 0, 2], [2, 1, 1]]):
                if q and ps in (4, 8) and bo == 'big' and lens in ([0], [1]):
                    continue
                for mode in ('cuts', 'trunc'):
                    obs.append(Ob(PROP, 'lp_roundtrip', dict(lens=lens, prefix=ps, order=bo, mode=mode), budget=b, group='lp:' + mode,
                                  bound=dict(payload_lengths=lens, prefix=ps, byteorder=bo, mode=mode)))
    for ps in (1, 2, 4, 8):
        for bo in ('little', 'big'):
            obs.append(Ob(PROP, 'lp_prefix', dict(prefix=ps, order=bo), budget=b, group='lp_prefix', bound=dict(prefix=ps, byteorder=bo, announced_length='any value the prefix can carry')))
    for L in ((4097, 8200) if q else (4097, 8200, 70000)):
        obs.append(Ob(PROP, 'line_long', dict(L=L), budget=b, group='line_long', bound=dict(line_length=L, cuts='solver-chosen next to 4096')))
    obs.append(Ob(PROP, 'line_rechunk', dict(L=3, c1=1, _twin='reach'), budget=60, expect='refute'))
    obs.append(Ob(PROP, 'lp_roundtrip', dict(lens=[1, 2], prefix=2, order='big', mode='trunc', _twin='reach'), budget=60, expect='refute'))
    return obs
