"""C14 memory state store behaves as an isolated per-index typed map."""
import math

import rxsci as rs
from rxsci.state.memory_store import MemoryStore
from vp.engine import Ob
from vp.harness import mk, fail

PROP = 'C14'
META = dict(
    explanation='The real MemoryStore (no Rx involved) is compared with a dictionary model. (a) One step from an arbitrary representable state: K slots, each with a solver-chosen marker (cleared / not set / set) and a symbolic value, '
                'built through the real API, then one operation add_key / set / get / del_key on a solver-chosen index (beyond the current length = growth by sparse index); after it every index must read exactly what the model says: '
                'the touched index as specified, every other index exactly as before (get, is_cleared, is_set, iterate). (b) Histories of 3 (thorough 4) solver-chosen operations from the empty store over sparse / descending / repeated indices, '
                'reads compared after every step. For every data type: int, uint, float, bool, obj, with and without default value. (c) mapper: one operation (lookup-or-create as group_by does, parent key completion + re-creation, read) from an arbitrary map state of 2 parent keys x 2 map keys inserted in a solver-chosen order after an earlier parent with 0..2 groups has completed: '
                'indices handed out are never equal to one in use, get_map returns the mapped index or NOTSET, iterate_map enumerates exactly the mapped keys in insertion order.',
    bounds=dict(quick='K <= 3 slots, touched index in {first, last, beyond the end}, values any int (floats: 2 concrete doubles chosen by the solver), histories of 3 operations over indices {0,2,4}, mapper: 16 pre-states x 12 operations; long-but-narrow: indices next to powers of two up to 256, 9-40 mapped groups under two parents incl. a release phase (all but two low groups unmapped in ascending / descending order, as many new groups mapped)',
                thorough='K <= 4 slots, histories of 4 operations'),
    outside='operations on an index that was never added or is cleared (outside the store contract: callers add_key first); partitioned StoreManager; rocksdb store',
    assumptions=['contract: set/get/del_key are only called on a live (added, not deleted) index - this is what every rxsci operator does'],
    stubs=[],
)

FL = [0.0, 1.5, -2.25, 1e300]
TYPES = {
    'int': (int, lambda v: v, None),
    'int_d': (int, lambda v: v, -1),
    'uint': ('uint', lambda v: v, None),            # values constrained >= 0 by precondition
    'uint_d': ('uint', lambda v: v, 0),
    'float': (float, lambda v: 1.5 if v > 0 else -2.25, None),
    'bool': (bool, lambda v: v > 0, None),
    'bool_d': (bool, lambda v: v > 0, False),
    'obj': ('obj', lambda v: (v, 'o'), None),
    'obj_d': ('obj', lambda v: (v, 'o'), 'dflt'),
    # equal-but-distinguishable values: 1 == True == 1.0, 0.0 == -0.0: the slot must read back the LAST one written, with its type and sign
    'obj_eq': ('obj', lambda v: (1 if v <= 0 else (True if v == 1 else 1.0)), None),
    'float_z': (float, lambda v: 0.0 if v > 0 else -0.0, None),
}
NMAX = 5
IDX = [0, 2, 4]      # sparse index candidates of the history form
NS = rs.state.markers.STATE_NOTSET


class Model(object):
    def __init__(self, default):
        self.d = {}
        self.default = default

    def add_key(self, i):
        self.d[i] = ('set', self.default) if self.default is not None else ('notset',)

    def set(self, i, v):
        self.d[i] = ('set', v)

    def del_key(self, i):
        self.d[i] = ('cleared',)

    def live(self, i):
        return i in self.d and self.d[i][0] != 'cleared'


def _reads_ok(st, m, dt):
    """every index reads what the model says"""
    top = -1
    for i in m.d:
        if i > top:
            top = i
    length = top + 1          # only public methods are used: indices above the highest one ever added are never touched
    it = list(st.iterate())
    exp_it = []
    for i in range(length):
        e = m.d.get(i, ('cleared',))
        if e[0] == 'cleared':
            if not st.is_cleared((i,)):
                return 'index %d should read cleared' % i
            continue
        if st.is_cleared((i,)):
            return 'index %d reads cleared' % i
        g = st.get((i,))
        if e[0] == 'notset':
            if g is not NS or st.is_set((i,)):
                return 'index %d should read NOTSET, got %r' % (i, g)
            exp_it.append(((i,), None, False))
        else:
            if g is NS or g != e[1] or not st.is_set((i,)):
                return 'index %d should read %r, got %r' % (i, e[1], g)
            if type(g) is not type(e[1]) or (type(g) is float and math.copysign(1.0, g) != math.copysign(1.0, e[1])):
                return 'index %d should read %r (last value written), got %r' % (i, e[1], g)
            if dt is bool and type(g) is not bool:
                return 'index %d: bool store returned %r' % (i, type(g))
            exp_it.append(((i,), e[1], True))
    if len(it) != len(exp_it):
        return 'iterate yields %d entries, expected %d' % (len(it), len(exp_it))
    for (k, v, s), (ek, ev, es) in zip(it, exp_it):
        if k != ek or s != es or (es and v != ev):
            return 'iterate entry %r, expected %r' % ((k, v, s), (ek, ev, es))
    return None


def _sel(x, n):
    for j in range(n - 1):
        if x <= j:
            return j
    return n - 1


def _apply(st, m, op, idx, val):
    """returns False when the operation is outside the contract in this state (skipped)"""
    if op == 0:
        st.add_key((idx,))
        m.add_key(idx)
    elif op == 1:
        if not m.live(idx):
            return False
        st.set((idx,), val)
        m.set(idx, val)
    elif op == 2:
        if not m.live(idx):
            return False
        st.del_key((idx,))
        m.del_key(idx)
    else:
        if not m.live(idx):
            return False
        g = st.get((idx,))
        e = m.d[idx]
        if (e[0] == 'notset') != (g is NS):
            return 'get'
        if e[0] == 'set' and g != e[1]:
            return 'get'
    return True


def step(p):
    """one operation from an arbitrary representable state of K slots"""
    K, tname = p['k'], p['type']
    dt, conv, default = TYPES[tname]
    sig = []
    pre = []
    for i in range(K):
        sig += [('m%d' % i, 'int'), ('x%d' % i, 'int')]
        pre += ['0 <= m%d <= 2' % i, '-2**40 <= x%d <= 2**40' % i]
    sig += [('op', 'int'), ('idx', 'int'), ('val', 'int')]
    pre += ['0 <= op <= 3', '0 <= idx <= 2', '-2**40 <= val <= 2**40']
    if dt == 'uint':
        pre = [x.replace('-2**40 <=', '0 <=') for x in pre]
    order = p.get('order', 'asc')
    cand = [0, max(K - 1, 1), K + 1]      # first slot, last slot (or a gap when K < 2), growth by a sparse index

    def body(a):
        st = MemoryStore(data_type=dt, default_value=default)
        m = Model(default)
        slots = list(range(K))
        if order == 'desc':
            slots.reverse()
        for i in slots:
            mk_, x = _sel(a[2 * i], 3), conv(a[2 * i + 1])
            st.add_key((i,))
            m.add_key(i)
            if mk_ == 2:
                st.set((i,), x)
                m.set(i, x)
            elif mk_ == 0:
                st.del_key((i,))
                m.del_key(i)
        r0 = _reads_ok(st, m, dt)
        if r0:
            return fail(stage='pre-state', problem=r0, type=tname)
        op, idx, val = _sel(a[2 * K], 4), cand[_sel(a[2 * K + 1], 3)], conv(a[2 * K + 2])
        r = _apply(st, m, op, idx, val)
        if r is False:
            return True
        if r == 'get':
            return fail(stage='get', type=tname, op=op, idx=idx)
        r1 = _reads_ok(st, m, dt)
        if r1:
            return fail(stage='after op', op=['add_key', 'set', 'del_key', 'get'][op], idx=idx, val=val, problem=r1, type=tname, model=m.d)
        return True
    return mk('store_step', sig, pre, body)


def history(p):
    """solver-chosen operations from the empty store over the sparse indices 0, 2, 4
    (descending / repeated / growing); the first operation after the initial add_key is fixed per obligation"""
    depth, tname = p['depth'], p['type']
    dt, conv, default = TYPES[tname]
    first, op0, idx0 = p['first'], p['op0'], p['idx0']
    sig = [('v0', 'int')]
    pre = ['-2**40 <= v0 <= 2**40']
    for i in range(1, depth):
        sig += [('o%d' % i, 'int'), ('i%d' % i, 'int'), ('v%d' % i, 'int')]
        pre += ['0 <= o%d <= 3' % i, '0 <= i%d <= 2' % i, '-2**40 <= v%d <= 2**40' % i]
    if dt == 'uint':
        pre = [x.replace('-2**40 <=', '0 <=') for x in pre]

    def body(a):
        st = MemoryStore(data_type=dt, default_value=default)
        m = Model(default)
        st.add_key((first,))
        m.add_key(first)
        for s in range(depth):
            if s == 0:
                op, idx, val = op0, idx0, conv(a[0])
            else:
                op, idx, val = _sel(a[3 * s - 2], 4), IDX[_sel(a[3 * s - 1], 3)], conv(a[3 * s])
            r = _apply(st, m, op, idx, val)
            if r is False:
                return True
            if r == 'get':
                return fail(stage='get', step=s, type=tname)
            rr = _reads_ok(st, m, dt)
            if rr:
                return fail(step=s, op=['add_key', 'set', 'del_key', 'get'][op], idx=idx, problem=rr, type=tname, model=m.d)
        return True
    return mk('store_history', sig, pre, body)


MK = [('a', 1), 10 ** 20]     # hashable map keys compared by value (fresh objects at every use)


def _mkey(i):
    return ('a', 1) if i == 0 else 10 ** 20 + 0


def mapper_step(p):
    """one mapper operation from an arbitrary map state: 2 parent keys (indices 0 and 3), each with a solver-chosen
    subset of 2 map keys mapped, inserted in a solver-chosen order through the real API"""
    sig = [('s0', 'int'), ('s1', 'int'), ('rev', 'bool'), ('op', 'int'), ('k', 'bool'), ('mi', 'bool'), ('dead', 'int')]
    pre = ['0 <= s0 <= 3', '0 <= s1 <= 3', '0 <= op <= 2', '0 <= dead <= 2']

    def body(a):
        s0, s1, rev, op, kk, mi, dead = a
        st = MemoryStore(data_type='mapper')
        model = {}
        used = []
        plan = []
        # history before the arbitrary state: a parent key (index 6) that had 0..2 groups and has completed the way group_by completes it
        # (del_map of every group, then del_key): its indices are no longer in use and may or may not be recycled
        nd = _sel(dead, 3)
        if nd:
            st.add_key((6,))
            gone = [st.add_map((6,), 'd%d' % j) for j in range(nd)]
            if len(set(gone)) != nd:
                return fail(stage='pre-state', problem='completed parent got duplicate indices %r' % (gone,))
            for j in range(nd):
                st.del_map((6,), 'd%d' % j)
            st.del_key((6,))
        for key, sub in ((0, _sel(s0, 4)), (3, _sel(s1, 4))):
            st.add_key((key,))
            model[key] = []
            for bit in (0, 1):
                if (sub >> bit) & 1:
                    plan.append((key, bit))
        if rev:
            plan.reverse()
        for key, bit in plan:
            idx = st.add_map((key,), _mkey(bit))
            if idx in used:
                return fail(stage='pre-state', problem='index %r handed out twice' % (idx,))
            used.append(idx)
            model[key].append((bit, idx))
        op = _sel(op, 3)
        key = 3 if kk else 0
        bit = 1 if mi else 0
        if op == 0:      # lookup-or-create, as group_by does
            cur = [i for (b, i) in model[key] if b == bit]
            g = st.get_map((key,), _mkey(bit))
            if cur:
                if g != cur[0]:
                    return fail(problem='get_map returned %r, expected %r' % (g, cur[0]))
            else:
                if g is not NS:
                    return fail(problem='get_map of an unmapped key returned %r' % (g,))
                idx = st.add_map((key,), _mkey(bit))
                if idx in used:
                    return fail(problem='index %r handed out while still in use' % (idx,), used=used)
                used.append(idx)
                model[key].append((bit, idx))
        elif op == 1:    # parent key completes and is re-created: its map starts empty, others untouched
            st.del_key((key,))
            st.add_key((key,))
            model[key] = []
        else:
            pass         # pure read
        for k2 in model:
            got = list(st.iterate_map((k2,)))
            exp = [_mkey(b) for (b, _) in model[k2]]
            if got != exp:
                return fail(problem='iterate_map', key=k2, observed=got, expected=exp)
            for b in (0, 1):
                cur = [i for (bb, i) in model[k2] if bb == b]
                g = st.get_map((k2,), _mkey(b))
                if (cur and g != cur[0]) or (not cur and g is not NS):
                    return fail(problem='get_map after op', key=k2, map_key=b, observed=g, expected=cur)
        return True
    return mk('mapper_step', sig, pre, body)


BIG = [7, 8, 9, 15, 16, 17, 31, 32, 33, 63, 64, 65, 127, 128, 129, 255, 256, 257, 1023, 1024, 1025]


def far(p):
    """indices far beyond the small states of the other families (neighbours of powers of two: growth steps of buffers): three solver-chosen large indices,
    added in a solver-chosen order, written / deleted / re-added; every touched index and its neighbours read what the model says"""
    tname = p['type']
    base = p['i0']
    dt, conv, default = TYPES[tname]
    sig = [('i0', 'int'), ('i1', 'int'), ('i2', 'int'), ('v0', 'int'), ('v1', 'int'), ('op', 'int')]
    pre = ['0 <= i0 <= 1', '0 <= i1 <= 3', '0 <= i2 <= 2', '-2**40 <= v0 <= 2**40', '-2**40 <= v1 <= 2**40', '0 <= op <= 2']
    if dt == 'uint':
        pre = [x.replace('-2**40 <=', '0 <=') for x in pre]

    def body(a):
        i0 = [0, base][_sel(a[0], 2)]                                   # the first key: index 0 or the far index itself (growth in one jump from an empty store)
        i1 = [base - 1, base + 1, base + 40, 1][_sel(a[1], 4)]          # a neighbour below / above, a second far jump, or a small index after the far one
        i2 = [base, base + 2, 3][_sel(a[2], 3)]
        if i1 == i0:
            i1 = i0 + 5
        if i2 in (i0, i1):
            i2 = max(i0, i1) + 7
        v0, v1 = conv(a[3]), conv(a[4])
        st = MemoryStore(data_type=dt, default_value=default)
        m = {}
        st.add_key((i0,)); m[i0] = ('set', default) if default is not None else ('notset',)
        st.set((i0,), v0); m[i0] = ('set', v0)
        st.add_key((i1,)); m[i1] = ('set', default) if default is not None else ('notset',)
        op = _sel(a[5], 3)
        if op == 0:
            st.set((i1,), v1); m[i1] = ('set', v1)
        elif op == 1:
            st.del_key((i1,)); m[i1] = ('cleared',)
            st.add_key((i2,)); m[i2] = ('set', default) if default is not None else ('notset',)
        else:
            st.add_key((i2,)); m[i2] = ('set', default) if default is not None else ('notset',)
            st.set((i2,), v1); m[i2] = ('set', v1)
        for i, e in m.items():
            if e[0] == 'cleared':
                if not st.is_cleared((i,)):
                    return fail(index=i, problem='should read cleared')
                continue
            g = st.get((i,))
            if e[0] == 'notset' and g is not NS:
                return fail(index=i, problem='should read NOTSET', observed=g, indices=[i0, i1, i2])
            if e[0] == 'set' and (g is NS or g != e[1]):
                return fail(index=i, problem='should read %r' % (e[1],), observed=g, indices=[i0, i1, i2], type=tname)
        live = sorted(i for i, e in m.items() if e[0] != 'cleared')
        got = [k[0] for (k, v, s_) in st.iterate()]
        if got != live:
            return fail(problem='iterate', observed=got, expected=live, indices=[i0, i1, i2])
        for j in (1, 2, base - 2, base + 3, base + 20):                   # holes that were never added read cleared
            if j >= 0 and j not in m and j <= max(m) and not st.is_cleared((j,)):
                return fail(problem='a never-added index does not read cleared', index=j, indices=[i0, i1, i2])
        return True
    return mk('store_far', sig, pre, body)


def mapper_many(p):
    """many groups: n (solver-chosen, up to 40) distinct map keys added under two parent keys alternately: every index handed out differs from all live ones, lookups return them"""
    n = p['nmax']           # the number of groups is concrete per obligation; the probed group is solver-chosen

    def body(a):
        probe = _sel(a[0], n + 1)
        st = MemoryStore(data_type='mapper')
        st.add_key((0,))
        st.add_key((5,))
        used = {}
        for j in range(n):
            parent = (0,) if j % 2 == 0 else (5,)
            mk_ = ('k', j)
            if st.get_map(parent, mk_) is not NS:
                return fail(problem='fresh key reported as mapped', j=j)
            idx = st.add_map(parent, mk_)
            if idx in used.values():
                return fail(problem='index %r handed out while still in use' % (idx,), n=n, j=j)
            used[(parent, mk_)] = idx
        for (parent, mk_), idx in used.items():
            if st.get_map(parent, mk_) != idx:
                return fail(problem='lookup of %r' % (mk_,), n=n)
        if probe < n:
            parent = (0,) if probe % 2 == 0 else (5,)
            if st.get_map(parent, ('k', probe)) != used[(parent, ('k', probe))] or st.get_map(parent, ('k', probe + 1000)) is not NS:
                return fail(problem='probe', probe=probe)
        if list(st.iterate_map((0,))) != [('k', j) for j in range(0, n, 2)] or list(st.iterate_map((5,))) != [('k', j) for j in range(1, n, 2)]:
            return fail(problem='iterate_map', n=n)
        if p.get('release'):
            # release phase: every group but two low ones (one of them solver-chosen) is unmapped - in ascending or descending order - and as many new groups
            # are mapped: an index handed out now must differ from every index still in use (the kept groups and the new ones)
            keep = (0, 1 + _sel(a[0], 3))
            order = list(range(n)) if p['release'] == 'asc' else list(range(n - 1, -1, -1))
            for j in order:
                if j in keep:
                    continue
                parent = (0,) if j % 2 == 0 else (5,)
                st.del_map(parent, ('k', j))
                del used[(parent, ('k', j))]
            for j in range(n, 2 * n):
                parent = (0,) if j % 2 == 0 else (5,)
                idx = st.add_map(parent, ('k', j))
                if idx in used.values():
                    return fail(problem='index %r handed out while still in use' % (idx,), n=n, j=j, kept=keep, in_use=sorted(used.values()))
                used[(parent, ('k', j))] = idx
            for (parent, mk_), idx in used.items():
                if st.get_map(parent, mk_) != idx:
                    return fail(problem='lookup of %r after the release phase' % (mk_,), n=n)
        return True
    return mk('mapper_many', [('probe', 'int')], ['0 <= probe <= %d' % n], body)


FAMILIES = {'far': far, 'mapper_many': mapper_many, 'step': step, 'history': history, 'mapper_step': mapper_step}


def obligations(tier, seed):
    obs = []
    q = tier == 'quick'
    b = 150 if q else 900
    for t in TYPES:
        branchy = t in ('float', 'bool', 'bool_d', 'obj_eq', 'float_z')      # the value conversion forks once per slot value
        eqv = t in ('obj_eq', 'float_z')
        for k in range(0, (3 if q else 4) + 1):
            if branchy and k > (2 if q else 3):
                continue
            if eqv and k > (1 if q else 2):
                continue
            obs.append(Ob(PROP, 'step', dict(k=k, type=t), budget=b, group='step', bound=dict(slots=k, type=t, step='one operation from an arbitrary state')))
        if eqv:
            continue
        kd = 2 if (branchy and q) else 3
        obs.append(Ob(PROP, 'step', dict(k=kd, type=t, order='desc'), budget=b, group='step', bound=dict(slots=kd, type=t, construction='descending indices')))
        if q and t not in ('int', 'bool_d', 'obj', 'float', 'uint_d'):
            continue
        for first in (0, 4):
            for op0 in (0, 1, 2):
                for idx0 in IDX:
                    if op0 != 0 and idx0 != first:
                        continue       # outside the contract: only the added index is live
                    obs.append(Ob(PROP, 'history', dict(depth=3 if q else 4, type=t, first=first, op0=op0, idx0=idx0), budget=b if q else 1800, group='history',
                                  bound=dict(operations=3 if q else 4, type=t, first_index=first, indices=IDX)))
    for t in (('int', 'obj_d') if q else ('int', 'obj_d', 'uint', 'bool_d', 'float', 'obj')):
        for i0 in ((8, 16, 32, 33, 64, 256) if q else BIG):
            obs.append(Ob(PROP, 'far', dict(type=t, i0=i0), budget=b, group='far indices', bound=dict(far_index=i0, neighbours='solver-chosen', type=t)))
    for nm in ((9, 17, 18, 33, 40) if q else (9, 17, 18, 33, 40, 65, 130, 258)):
        obs.append(Ob(PROP, 'mapper_many', dict(nmax=nm), budget=b * 2, group='many groups', bound=dict(groups=nm, probe='solver-chosen group')))
        if nm <= 40:
            for rel in ('asc', 'desc'):
                obs.append(Ob(PROP, 'mapper_many', dict(nmax=nm, release=rel), budget=b * 2, group='many groups', bound=dict(groups=nm, then='all but two low groups unmapped (%s), as many new groups mapped' % rel)))
    obs.append(Ob(PROP, 'mapper_step', dict(), budget=b, bound=dict(parent_keys=2, map_keys=2, step='one operation from an arbitrary map state')))
    obs.append(Ob(PROP, 'step', dict(k=2, type='int', _twin='reach'), budget=60, expect='refute'))
    obs.append(Ob(PROP, 'mapper_step', dict(_twin='reach'), budget=60, expect='refute'))
    return obs
