"""C10 per-key sequence operators match their list semantics."""
import rx
import rxsci as rs
from vp import drivers as D
from vp.engine import Ob
from vp.harness import mk, fail
from vp.props.common import multiset_eq, quiet

PROP = 'C10'
META = dict(
    explanation='Each sequence operator is run (real code) on N symbolic items, each an arbitrary integer or None, per key under with_memory_store (root key, and for the stateful ones under group_by with two solver-interleaved keys) and on a plain observable where it supports one, '
                'and the emitted list is compared with the list definition of the property statement, written directly on Python lists: first/last/take(n); distinct = first occurrences; '
                'distinct_until_changed = heads of runs (with and without key_mapper); lag(n) = (items[max(0,i-n)], items[i]); pad_start / pad_end / start_with padding around a non-empty sequence; '
                'batch(n) = chunks of exactly n plus one non-empty remainder, concatenation = input; sort = stable ordered permutation. One obligation per operator x mode x length x parameter value; the stateful ones also after an aborted first subscription of the same operator objects (retry) and on a second clean subscription.',
    bounds=dict(quick='N <= 5 items (int or None; distinct: ints in 0..2 because the real code hashes them, plus <= 3 (thorough 4) items picked by the solver from a palette holding different values of equal hash), take n in 0..N+1, lag 1..3, batch 1..N+1, pad size 0..2 value None/explicit; sort N <= 3; re-used key index: the stateful operators inside split with solver-chosen boundaries and a tumbling roll, N <= 4; long-but-narrow: 9 / 17 groups live at once with the operator placed after a filter (a group live without state while the tables grow), a key with more than 8 different values',
                thorough='N <= 7 (sort N <= 4, distinct N <= 5)'),
    outside='N above the bound; key mappers that raise; unhashable items for distinct',
    assumptions=['list definitions in vp/props/C10.py transcribe the property statement'],
    stubs=[],
)


def _chunks(items, n):
    return [items[i:i + n] for i in range(0, len(items), n)]


def _runs_heads(items, km):
    out = []
    for i, v in enumerate(items):
        if i == 0 or km(v) != km(items[i - 1]):
            out.append(v)
    return out


def _first_occ(items):
    out = []
    for v in items:
        seen = False
        for w in out:
            if w == v:
                seen = True
        if not seen:
            out.append(v)
    return out


def _idn(i): return i
def _par(i): return None if i is None else i % 2


# op -> (ops factory(param), oracle(items, param), plain supported, needs nonempty for plain)
OPS = {
    'first': (lambda a: [rs.ops.first()], lambda it, a: it[:1], True, True),
    'last': (lambda a: [rs.ops.last()], lambda it, a: it[-1:], True, True),
    'take': (lambda a: [rs.ops.take(a)], lambda it, a: it[:a], True, False),
    'distinct': (lambda a: [rs.ops.distinct()], lambda it, a: _first_occ(it), False, False),
    'duc': (lambda a: [rs.ops.distinct_until_changed()], lambda it, a: _runs_heads(it, _idn), True, False),
    'duc_k': (lambda a: [rs.ops.distinct_until_changed(_par)], lambda it, a: _runs_heads(it, _par), True, False),
    'lag': (lambda a: [rs.data.lag(a)], lambda it, a: [(it[max(0, i - a)], it[i]) for i in range(len(it))], False, False),
    'pad_start': (lambda a: [rs.data.pad_start(a[0], a[1])], lambda it, a: ([(a[1] if a[1] is not None else it[0])] * a[0] + it) if it else [], False, False),
    'pad_end': (lambda a: [rs.data.pad_end(a[0], a[1])], lambda it, a: (it + [(a[1] if a[1] is not None else it[-1])] * a[0]) if it else [], False, False),
    'start_with': (lambda a: [rs.ops.start_with(tuple(a))], lambda it, a: (list(a) + it) if it else [], False, False),
    'batch': (lambda a: [rs.data.batch(a)], lambda it, a: _chunks(it, a), True, False),
}


def seqop(p):
    op, n, mode, arg = p['op'], p['n'], p['mode'], p.get('arg')
    typ = 'int' if (op == 'distinct' or not p.get('opt', True)) else 'Optional[int]'
    sig = [('v%d' % i, typ) for i in range(n)]
    pre = ['0 <= v%d <= 2' % i for i in range(n)] if op == 'distinct' else []
    fac, oracle, _, _ = OPS[op]

    if mode == 'group':
        return _seqop_group(p, typ, pre, fac, oracle)

    def body(a):
        items = list(a)
        ops = fac(arg)
        pipe_op = rs.state.with_memory_store(list(ops)) if mode == 'mux' else rx.pipe(*ops)
        exp = oracle(items, arg)
        if p.get('resub'):
            # the SAME observable object is subscribed three times: the first subscription fails mid-way at the rx level (what ops.retry re-subscribes after)
            obs_ = D.flaky_src(items, p['resub']).pipe(pipe_op)
            obs_.subscribe(on_next=lambda i: None, on_error=lambda e: None)
        else:
            obs_ = D.src(items).pipe(pipe_op)
        for sub in ((1, 2) if p.get('resub') else (1,)):
            got = []
            obs_.subscribe(on_next=got.append, on_error=lambda e: got.append(('ERR', type(e).__name__)))
            got = [list(x) if op == 'batch' else x for x in got]
            if got != exp:
                return fail(op=op, arg=arg, mode=mode, subscription=sub, aborted_first=p.get('resub'), items=items, observed=got, expected=exp)
        return True
    return mk('seq_' + op, sig, pre, body)


def _seqop_group(p, typ, pre, fac, oracle):
    """the operator under group_by with two interleaved keys (solver-chosen per item): each group's outputs against the list definition on that group's items"""
    op, n, arg = p['op'], p['n'], p.get('arg')
    sig = []
    for i in range(n):
        sig += [('k%d' % i, 'bool'), ('v%d' % i, typ)]

    def body(a):
        keys = [(1 if a[2 * i] else 0) for i in range(n)]
        vals = [a[2 * i + 1] for i in range(n)]
        log = []
        inner = [rs.ops.map(lambda i: i[1])] + fac(arg) + [D.tap(log, (lambda x: list(x)) if op == 'batch' else None)]
        err = []
        D.src(list(zip(keys, vals))).pipe(rs.state.with_memory_store([rs.ops.group_by(lambda i: i[0], inner)])).subscribe(on_error=lambda e: err.append(repr(e)))
        order = []
        for k in keys:
            if k not in order:
                order.append(k)
        buckets, wf = D.lifetimes(log)         # bucket by creation order of the groups, not by the index values handed out
        if len(buckets) != len(order) or not wf:
            return fail(op=op, arg=arg, mode='group_by', items=list(zip(keys, vals)), problem='group lifecycles', log=log, err=err)
        for gi, k in enumerate(order):
            its = [v for kk, v in zip(keys, vals) if kk == k]
            got = buckets[gi]
            exp = oracle(its, arg)
            if got != exp or err:
                return fail(op=op, arg=arg, mode='group_by, 2 interleaved keys', items=list(zip(keys, vals)), group=k, group_items=its, observed=got, expected=exp, err=err)
        return True
    return mk('seq_group_' + op, sig, pre, body)


def seqop_reuse(p):
    """the operator inside split (solver-chosen segment boundaries) or a tumbling roll: the SAME key index is completed and created again for every
    segment / window, so whatever the operator remembers about a key - in the store or anywhere else - must start afresh: every lifetime's output
    against the list definition on that lifetime's items"""
    op, n, arg, ctx = p['op'], p['n'], p.get('arg'), p['ctx']
    fac, oracle, _, _ = OPS[op]
    typ = 'int'
    sig = []
    for i in range(n):
        sig += [('c%d' % i, 'bool'), ('v%d' % i, typ)]
    pre = ['0 <= v%d <= 2' % i for i in range(n)] if op == 'distinct' else []

    def body(a):
        vals = [a[2 * i + 1] for i in range(n)]
        if ctx == 'split':
            seg, cur = [], 0
            for i in range(n):
                if i > 0 and a[2 * i]:
                    cur += 1
                seg.append(cur)
            lifet = [[v for s_, v in zip(seg, vals) if s_ == g] for g in range(cur + 1)] if n else []
            outer = lambda inner: rs.data.split(lambda i: i[0], inner)      # noqa
        else:
            seg = [i // 2 for i in range(n)]
            lifet = [vals[i:i + 2] for i in range(0, n, 2)]
            outer = lambda inner: rs.data.roll(2, 2, inner)      # noqa
        log = []
        inner = [rs.ops.map(lambda i: i[1])] + fac(arg) + [D.tap(log, (lambda x: list(x)) if op == 'batch' else None)]
        err = []
        D.src(list(zip(seg, vals))).pipe(rs.state.with_memory_store([outer(inner)])).subscribe(on_error=lambda e: err.append(repr(e)))
        buckets, wf = D.lifetimes(log)
        if err or not wf or len(buckets) != len(lifet):
            return fail(op=op, arg=arg, ctx=ctx, items=list(zip(seg, vals)), problem='key lifecycles', lifetimes_seen=len(buckets), expected_lifetimes=len(lifet), err=err)
        for li, its in enumerate(lifet):
            exp = oracle(its, arg)
            if buckets[li] != exp:
                return fail(op=op, arg=arg, ctx=ctx + ' (key index re-used by every segment)', lifetime=li, lifetime_items=its, observed=buckets[li], expected=exp)
        return True
    return mk('seq_reuse_' + op, sig, pre, body)


def sort(p):
    n = p['n']
    sig = [('k%d' % i, 'int') for i in range(n)]
    pre = ['0 <= k%d <= %d' % (i, p.get('kmax', 2)) for i in range(n)]
    rev = p.get('reverse', False)

    def body(a):
        items = [(a[i], i) for i in range(n)]
        got = quiet(D.run_plain, items, [rs.data.sort(key=lambda i: i[0], reverse=rev)])
        ok = multiset_eq(got, items)
        for x, y in zip(got, got[1:]):
            if not isinstance(x, tuple) or not isinstance(y, tuple):
                ok = False
            elif rev:
                if x[0] < y[0] or (x[0] == y[0] and x[1] > y[1]):
                    ok = False
            elif x[0] > y[0] or (x[0] == y[0] and x[1] > y[1]):
                ok = False
        if ok:
            return True
        return fail(op='sort', items=items, observed=got, expected='stable ordered permutation of items by key item[0]')
    return mk('seq_sort', sig, pre, body)


def distinct_long(p):
    """distinct on a key with many different values (m concrete ones 0..m-1, then two solver-chosen values in 0..m): first occurrences only"""
    m = p['m']

    def body(a):
        x = a[0]
        items = list(range(m)) + [x, m - 1, x]
        got = D.run_mux(items, [rs.ops.distinct()])
        exp = _first_occ(items)
        return got == exp or fail(op='distinct', different_values=m, items=items[-4:], observed=got[-4:], expected=exp[-4:])
    return mk('distinct_long', [('x', 'int')], ['0 <= x <= %d' % m], body)


PALETTE = [-1, -2, 0, 2 ** 61 - 1, 5]       # hash(-1) == hash(-2) and hash(0) == hash(2**61 - 1) in CPython: different values of equal hash


def distinct_palette(p):
    """distinct over values the solver picks from a palette that contains DIFFERENT values of EQUAL hash (the real code keeps the seen values in a hash table;
    symbolic integers cannot go through hash() without being realised, so the solver chooses palette positions and the items are the concrete objects):
    first occurrences by ==, never by hash"""
    n, mode = p['n'], p['mode']

    def pick(j):
        for k in range(len(PALETTE) - 1):
            if j == k:
                return PALETTE[k]
        return PALETTE[-1]

    def body(a):
        items = [pick(j) for j in a]
        exp = _first_occ(items)
        if mode == 'group':
            log = []
            err = []
            D.src(items).pipe(rs.state.with_memory_store([rs.ops.group_by(lambda i: i == 5, [rs.ops.distinct(), D.tap(log)])])).subscribe(on_error=lambda e: err.append(repr(e)))
            buckets, wf = D.lifetimes(log)
            order = _first_occ([i == 5 for i in items])
            expg = [_first_occ([i for i in items if (i == 5) == g]) for g in order]
            return (not err and wf and buckets == expg) or fail(op='distinct', mode=mode, items=items, observed=buckets, expected=expg, err=err)
        got = D.run_mux(items, [rs.ops.distinct()])
        return got == exp or fail(op='distinct', mode=mode, items=items, observed=got, expected=exp)
    return mk('distinct_palette', [('j%d' % i, 'int') for i in range(n)], ['0 <= j%d <= %d' % (i, len(PALETTE) - 1) for i in range(n)], body)


def seqop_many(p):
    """K groups live at once under group_by (K crosses table growth steps 8 / 16 / 64), the sequence operator placed after a filter: group 0 is created by an item
    the filter drops - it is live, but the operator has seen nothing for it - while all the other groups are created and receive an item (the state tables
    grow meanwhile); then groups 0, 1 and K-1 receive symbolic items.  Every group's outputs against the list definition on the items that pass the filter"""
    op, arg, K = p['op'], p.get('arg'), p['k']
    fac, oracle, _, _ = OPS[op]
    pre = ['0 <= v%d <= 2' % i for i in range(4)] if op == 'distinct' else ['-2**40 <= v%d <= 2**40' % i for i in range(4)]

    def body(a):
        v0, v1, v2, v3 = a
        items = [(0, -1)] + [(k, k % 3) for k in range(1, K)] + [(0, v0), (K - 1, v1), (0, v2), (1, v3), (0, v1), (K // 2, 2)]
        log = []
        inner = [rs.ops.map(lambda i: i[1]), rs.ops.filter(lambda v: v >= 0)] + fac(arg) + [D.tap(log, (lambda x: list(x)) if op == 'batch' else None)]
        err = []
        D.src(items).pipe(rs.state.with_memory_store([rs.ops.group_by(lambda i: i[0], inner)])).subscribe(on_error=lambda e: err.append(repr(e)))
        buckets, wf = D.lifetimes(log)
        if err or not wf or len(buckets) != K:
            return fail(op=op, arg=arg, live_groups=K, problem='group lifecycles', err=err, groups_seen=len(buckets))
        for k in range(K):
            its = [v for kk, v in items if kk == k and v >= 0]
            exp = oracle(its, arg)
            if buckets[k] != exp:
                return fail(op=op, arg=arg, live_groups=K, group=k, group_items=its, observed=buckets[k], expected=exp)
        return True
    return mk('seq_many_' + op, [('v%d' % i, 'int') for i in range(4)], pre, body)


FAMILIES = {'seqop': seqop, 'sort': sort, 'distinct_long': distinct_long, 'distinct_palette': distinct_palette, 'seqop_reuse': seqop_reuse, 'seqop_many': seqop_many}


def obligations(tier, seed):
    obs = []
    q = tier == 'quick'
    nmax = 5 if q else 7
    b = 120 if q else 900

    def add(op, n, mode, arg=None):
        _, _, plain_ok, nonempty = OPS[op]
        if mode == 'plain' and (not plain_ok or (nonempty and n == 0)):
            return
        obs.append(Ob(PROP, 'seqop', dict(op=op, n=n, mode=mode, arg=arg), budget=b, group='seqop:' + op,
                      bound=dict(items=n, values='int or None' if op != 'distinct' else 'ints 0..2', arg=arg, mode=mode)))
    for n in range(0, nmax + 1):
        for mode in ('mux', 'plain'):
            add('first', n, mode)
            add('last', n, mode)
            for k in range(0, n + 2):
                add('take', n, mode, k)
            add('duc', n, mode)
            add('duc_k', n, mode)
            for k in range(1, n + 2):
                add('batch', n, mode, k)
        if n <= (4 if q else 5):
            add('distinct', n, 'mux')
        for k in (1, 2, 3):
            add('lag', n, 'mux', k)
        for size in (0, 1, 2):
            for val in (None, 7):
                if q and n not in (0, 1, 3, 4):
                    continue
                add('pad_start', n, 'mux', [size, val])
                add('pad_end', n, 'mux', [size, val])
        add('start_with', n, 'mux', [5, 6])
        add('start_with', n, 'mux', [])
    for op, arg in (('duc', None), ('batch', 2), ('batch', 3), ('take', 2), ('first', None), ('last', None), ('lag', 2), ('pad_end', [1, None]), ('start_with', [5, 6]), ('distinct', None)):
        for mode in ('mux', 'plain'):
            _, _, plain_ok, nonempty = OPS[op]
            if mode == 'plain' and not plain_ok:
                continue
            for k in (1, 2):
                obs.append(Ob(PROP, 'seqop', dict(op=op, n=3, mode=mode, arg=arg, resub=k), budget=b, group='seqop_resubscribed:' + op,
                              bound=dict(items=3, mode=mode, arg=arg, history='aborted subscription after %d items, then two clean subscriptions of the same operator objects' % k)))
    for op, arg in (('first', None), ('last', None), ('take', 2), ('duc', None), ('lag', 1), ('pad_end', [1, None]), ('start_with', [5, 6]), ('batch', 2), ('distinct', None)):
        for k in ((9, 17) if q else (9, 10, 17, 33, 65, 129)):
            obs.append(Ob(PROP, 'seqop_many', dict(op=op, arg=arg, k=k), budget=b * 2, group='seqop: many live groups', bound=dict(live_groups=k, op=op, arg=arg, symbolic_items=4)))
    ng = 4 if q else 5
    for op, arg in (('first', None), ('last', None), ('take', 1), ('take', 2), ('distinct', None), ('duc', None), ('lag', 1), ('lag', 2), ('lag', 3), ('pad_start', [1, None]), ('pad_end', [2, None]),
                    ('pad_end', [1, 7]), ('start_with', [5, 6]), ('batch', 2), ('batch', 3)):
        for n in ((3, ng) if op != 'distinct' else (3,)):
            obs.append(Ob(PROP, 'seqop', dict(op=op, n=n, mode='group', arg=arg, opt=False), budget=b, group='seqop_group:' + op,
                          bound=dict(items=n, groups=2, values='ints' if op != 'distinct' else 'ints 0..2', arg=arg, mode='group_by')))
    for m in ((9, 17) if q else (9, 17, 33, 70)):
        obs.append(Ob(PROP, 'distinct_long', dict(m=m), budget=b * 2, group='distinct_long', bound=dict(different_values=m, symbolic='a further item in 0..%d, repeated' % m)))
    for op, arg in (('first', None), ('last', None), ('take', 1), ('distinct', None), ('duc', None), ('lag', 1), ('lag', 2), ('pad_start', [1, None]), ('pad_end', [1, None]), ('start_with', [5, 6]), ('batch', 2)):
        for ctx in ('split', 'roll22'):
            for n in ((3, 4) if q else (3, 4, 5)):
                if op == 'distinct' and n > 4:
                    continue
                obs.append(Ob(PROP, 'seqop_reuse', dict(op=op, arg=arg, ctx=ctx, n=n), budget=b, group='seqop: re-used key (' + ctx + ')',
                              bound=dict(items=n, op=op, arg=arg, context=ctx, boundaries='solver-chosen' if ctx == 'split' else 'every 2 items')))
    for n in ((2, 3) if q else (2, 3, 4)):
        for mode in ('mux', 'group'):
            obs.append(Ob(PROP, 'distinct_palette', dict(n=n, mode=mode), budget=b * 2, group='distinct: equal-hash values',
                          bound=dict(items=n, mode=mode, values='solver-chosen positions in the palette %r (pairs of different values with equal hash)' % (PALETTE,))))
    for n in range(0, (3 if q else 4) + 1):
        obs.append(Ob(PROP, 'sort', dict(n=n), budget=b, bound=dict(items=n, keys='0..2')))
        if n >= 2:
            obs.append(Ob(PROP, 'sort', dict(n=n, reverse=True), budget=b, bound=dict(items=n, keys='0..2', reverse=True)))
    obs.append(Ob(PROP, 'seqop', dict(op='duc', n=3, mode='mux', _twin='reach'), budget=60, expect='refute'))
    return obs
