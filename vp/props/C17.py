"""C17 incremental text encode/decode is chunk-boundary independent."""
import sys

import rxsci.data.codec as codec
from vp import drivers as D
from vp.engine import Ob
from vp.harness import mk, fail
from vp import harness
from vp.stubs import codecs_model as M

PROP = 'C17'
META = dict(
    explanation='The real rxsci.data.codec encode/decode operators run over pure-Python incremental codec models (contract stubs, validated against CPython\'s codecs on a boundary alphabet x every cut at the start of every run). '
                'Strings are lists of symbolic code points over the whole Unicode range minus surrogates (astral, combining, U+FEFF are just values of the variables); the string list has a concrete shape (lengths per item, empty strings included); '
                'the encoded byte stream is cut at two positions (first concrete per obligation, second solver-chosen; inside multi-byte sequences) and decoded: the concatenation of decoded strings must equal the concatenation of the originals, '
                'a second subscription of the same encode / decode pipeline must behave like the first (fresh codec state per subscription), decode must finish without error, and for utf-16/utf-32 the byte-order mark must appear exactly once at the start. The decode step as json.load_from_file composes it (read chunks -> decode -> unframe -> load) is exercised with the C19 harness and a read boundary at every byte position.',
    bounds=dict(quick='<= 2 strings, <= 2 code points in total, 2 cuts; utf-8, utf-16, utf-32, latin-1 (code points <= 0xFF)', thorough='<= 3 strings, <= 3 code points in total'),
    outside='CPython\'s codec implementations themselves (replaced by validated models); incremental=False (each item independent, documented as such); more code points than the bound',
    assumptions=['codecs.getincrementalencoder/decoder behave as vp/stubs/codecs_model.py (validated against CPython at run start)'],
    stubs=['FakeCodecs replaces the codecs name inside rxsci.data.codec'],
)

BOM = {'utf-16': b'\xff\xfe', 'utf-32': b'\xff\xfe\x00\x00'}


def _sel(x, n):
    for j in range(n - 1):
        if x <= j:
            return j
    return n - 1


def _with_stub(f):
    with harness.stubbed([('rxsci.data.codec', 'codecs', M.FakeCodecs)]):
        return f()


def roundtrip(p):
    """params: enc, lens (code points per string), c1 (first cut, concrete), maxbytes"""
    enc, lens, c1 = p['enc'], p['lens'], p['c1']
    ncp = sum(lens)
    hi = 0xFF if enc == 'latin-1' else 0x10FFFF
    sig = [('c%d' % i, 'int') for i in range(ncp)] + [('x2', 'int')]
    pre = ['0 <= c%d <= %d and not (0xD800 <= c%d <= 0xDFFF)' % (i, hi, i) for i in range(ncp)] + ['0 <= x2 <= %d' % p['maxbytes']]

    def body(a):
        items = []
        k = 0
        for l in lens:
            items.append(''.join(chr(c) for c in a[k:k + l]))
            k += l
        kw = {} if p.get('default') else dict(encoding=enc)
        eobs = D.src(items).pipe(codec.encode(**kw))
        whole = None
        for sub in (1, 2):        # a second subscription of the same pipeline is a new stream: it must start from a fresh codec state
            encd = []
            done = []
            _with_stub(lambda: eobs.subscribe(on_next=encd.append, on_error=lambda e: done.append(('ERR', repr(e))), on_completed=lambda: done.append('C')))
            if done != ['C']:       # how the encoded bytes are spread over emitted chunks is the operator's business (the statement speaks about their concatenation)
                return fail(stage='encode', subscription=sub, items=items, observed=encd, done=done)
            if whole is not None and b''.join(encd) != whole:
                return fail(stage='encode', subscription=sub, items=items, observed=b''.join(encd), expected=whole)
            whole = b''.join(encd)
        if enc in BOM:
            b = BOM[enc]
            if whole[:len(b)] != b:
                return fail(stage='bom', observed=whole)
        if c1 > len(whole):
            return True
        c2 = c1 + _sel(a[ncp], len(whole) - c1 + 1)
        chunks = [whole[:c1], whole[c1:c2], whole[c2:]]
        dobs = D.src(chunks).pipe(codec.decode(**kw))
        exp = ''.join(items)
        for sub in (1, 2):
            out = []
            done2 = []
            _with_stub(lambda: dobs.subscribe(on_next=out.append, on_error=lambda e: done2.append(('ERR', repr(e))), on_completed=lambda: done2.append('C')))
            got = ''.join(out)
            if done2 != ['C'] or got != exp:
                return fail(enc=enc, subscription=sub, items=items, encoded=whole, chunks=chunks, observed=got, expected=exp, done=done2)
        return True
    return mk('codec_roundtrip', sig, pre, body)


def stub_valid(p):
    def run():
        r = M.validate()
        return dict(verdict='CONFIRMED' if r is None else 'INCONCLUSIVE', reason=None if r is None else 'stub invalid: ' + r, paths=0, solver_queries=0, solver_s=0.0)
    return run


def long_text(p):
    """long inputs: one concrete string of n characters (n crosses the 1024 / 4096 byte marks in utf-16 / utf-32) followed by one symbolic code point; the encoded stream
    is cut at a solver-chosen odd or even offset followed by a chunk of 1024 bytes and more; everything else as in the round-trip family"""
    enc, n = p['enc'], p['n']
    hi = 0xFF if enc == 'latin-1' else 0x10FFFF

    def body(a):
        c, x = a
        items = ['ab' * (n // 2), chr(c)]
        encd, done = [], []
        _with_stub(lambda: D.src(items).pipe(codec.encode(encoding=enc)).subscribe(on_next=encd.append, on_error=lambda e: done.append(('ERR', repr(e))), on_completed=lambda: done.append('C')))
        if done != ['C']:
            return fail(stage='encode', done=done)
        whole = b''.join(encd)
        if enc in BOM and (whole[:len(BOM[enc])] != BOM[enc] or whole.count(BOM[enc]) != (1 if c != 0xFEFF else whole.count(BOM[enc]))):
            return fail(stage='bom', problem='byte-order mark count', count=whole.count(BOM[enc]))
        c1 = [1, 2, 3, 4][_sel(x, 4)]
        chunks = [whole[:c1], whole[c1:c1 + 1024], whole[c1 + 1024:c1 + 1024 + 2050], whole[c1 + 1024 + 2050:]]
        out, done2 = [], []
        _with_stub(lambda: D.src(chunks).pipe(codec.decode(encoding=enc)).subscribe(on_next=out.append, on_error=lambda e: done2.append(('ERR', repr(e))), on_completed=lambda: done2.append('C')))
        got, exp = ''.join(out), ''.join(items)
        return (done2 == ['C'] and got == exp) or fail(enc=enc, chars=n, first_cut=c1, done=done2, lengths=(len(got), len(exp)), tail=(got[-3:], exp[-3:]))
    return mk('codec_long', [('c', 'int'), ('x', 'int')], ['0 <= c <= %d and not (0xD800 <= c <= 0xDFFF)' % hi, '0 <= x <= 3'], body)


def json_path(p):
    """the decode step as rxsci.container.json.load_from_file composes it (file.read chunks -> decode -> line.unframe -> load): the harness of C19 with a short read
    at a given byte position, here for multi-byte characters cut by the read boundary"""
    from vp.props import C19
    return C19.file_rt(dict(lens=p['lens'], compression=p.get('compression'), c1=p['c1'], as_bytes=True, encoding=p.get('encoding', 'utf-8')))


FAMILIES = {'roundtrip': roundtrip, 'stub_valid': stub_valid, 'json_path': json_path, 'long_text': long_text}
WIDTH = {'utf-8': 4, 'utf-16': 4, 'utf-32': 4, 'latin-1': 1}


def obligations(tier, seed):
    obs = [Ob(PROP, 'stub_valid', {}, kind='direct', budget=120, group='stub validation')]
    q = tier == 'quick'
    b = 240 if q else 1500
    shapes = [[0], [1], [2], [1, 1], [0, 1], [1, 0], [0, 0]] if q else [[0], [1], [2], [3], [1, 1], [0, 1], [1, 0], [0, 0], [2, 1], [1, 2], [1, 1, 1], [0, 2, 0], [1, 0, 1]]
    for enc in ('utf-8', 'utf-16', 'utf-32', 'latin-1'):
        bom = len(BOM.get(enc, b''))
        for lens in shapes:
            maxb = bom + WIDTH[enc] * sum(lens)
            for c1 in range(0, maxb + 1):
                if q and enc in ('utf-16', 'utf-32') and sum(lens) == 2 and c1 % 2 == 1 and c1 > bom + 4:
                    continue
                obs.append(Ob(PROP, 'roundtrip', dict(enc=enc, lens=lens, c1=c1, maxbytes=maxb), budget=b, group='roundtrip:' + enc,
                              bound=dict(encoding=enc, code_points_per_string=lens, first_cut=c1, second_cut='symbolic')))
    for c1 in range(1, 13 if q else 17):
        obs.append(Ob(PROP, 'json_path', dict(lens=[1, 1], c1=c1), budget=b, group='json_path', bound=dict(object_chars=[1, 1], short_read_at=c1, encoding='utf-8 through json.load_from_file')))
    for enc, n in ((('utf-16', 2100), ('utf-32', 1100), ('utf-8', 4200)) if q else (('utf-16', 2100), ('utf-32', 1100), ('utf-8', 4200), ('utf-16', 9000), ('latin-1', 5000))):
        obs.append(Ob(PROP, 'long_text', dict(enc=enc, n=n), budget=b, group='long_text', bound=dict(encoding=enc, characters=n, chunks='a 1024-byte and a 2050-byte chunk at a solver-chosen offset')))
    for comp in (None, 'gzip', 'zstd'):
        for lens in ([0, 0, 0], [1, 0]):
            obs.append(Ob(PROP, 'json_path', dict(lens=lens, c1=3, compression=comp, encoding='utf-16'), budget=b, group='json_path', bound=dict(object_chars=lens, encoding='utf-16 through json.dump_to_file / load_from_file', compression=comp)))
    obs.append(Ob(PROP, 'roundtrip', dict(enc='utf-8', lens=[1, 1], c1=1, maxbytes=8, default=True), budget=b, group='roundtrip:utf-8', bound=dict(encoding='default arguments', code_points_per_string=[1, 1])))
    obs.append(Ob(PROP, 'roundtrip', dict(enc='utf-8', lens=[1, 1], c1=2, maxbytes=8, _twin='reach'), budget=60, expect='refute'))
    return obs
