"""C03 mux event protocol is well-formed at every operator boundary."""
import random

import rxsci as rs
from vp import catalog as C
from vp import drivers as D
from vp.engine import Ob
from vp.harness import mk, fail, ints

PROP = 'C03'
META = dict(
    explanation='A protocol monitor (pure pass-through MuxObservable) is inserted at every boundary the harness can name: before and after every operator of the outer pipeline, at head and tail of every inner pipeline of '
                'group_by / roll / split / time_split and at head and tail of every tee_map branch. Each monitor keeps the set of live keys and flags: creation of a live key; item, error or completion for a key that is not live; '
                'two live keys sharing key[0] (the slot index addressing their state); stream completion with a live key left; any event after stream completion (a boundary that is disposed before its stream completes, as happens behind the first completing branch of a nested tee_map, is not required to see a completion). The harness postcondition is "no flag at any boundary" for all N symbolic integers, on a first and on a second subscription of the same pipeline object. '
                'Programs: the keyed operators over a (window, stride) grid incl. stride > window, window > N and empty sources, nestings to depth 3, groups emptied by an upstream filter, tee_map around keyed/filtering/reducing branches, seeded random nestings.',
    bounds=dict(quick='N <= 4 items (roll grid: N <= 6, (w,s) in 1..4 x 1..4), nesting depth <= 3, ~40 systematic + 40 seeded programs', thorough='N <= 6, 300 seeded programs, (w,s) in 1..5'),
    outside='boundaries inside operators that are themselves rx.pipe compositions of other operators are tapped only when the catalogue lists their parts separately; programs not enumerated; error events (C13)',
    assumptions=[],
    stubs=[],
)


class Monitor(object):
    def __init__(self):
        self.logs = {}

    def tap(self, label):
        log = self.logs.setdefault(label, [])
        return D.tap(log)

    def flags(self):
        out = []
        for label, log in self.logs.items():
            live = {}
            errored = set()
            ended = False
            for ev in log:
                if ended:
                    out.append((label, 'event after stream completion', ev[0]))
                    break
                if ev[0] == 'END':
                    ended = True
                    if [k for k in live if k not in errored]:
                        out.append((label, 'stream completed with live keys', sorted(live)))
                    continue
                kind, idx, key = ev[0], ev[1], ev[-1]
                if kind == 'c':
                    if idx in live and idx in errored:
                        # a keyed operator may have terminated this lifetime with the error it forwarded: re-creation is then legitimate
                        del live[idx]
                        errored.discard(idx)
                    if idx in live:
                        if live[idx] == key:
                            out.append((label, 'create of a live key', key))
                        else:
                            out.append((label, 'two live keys share slot index', (live[idx], key)))
                    live[idx] = key
                elif kind in ('n', 'e'):
                    if live.get(idx, None) != key:
                        out.append((label, 'item/error for a key that is not live', key))
                    elif kind == 'e':
                        errored.add(idx)
                elif kind == 'd':
                    if live.get(idx, None) != key:
                        out.append((label, 'completion of a key that is not live', key))
                    else:
                        del live[idx]
        return out


def wellformed(p):
    desc, n = p['desc'], p['n']
    nsym = min(n, p.get('nsym', n))
    pre = ['-2**40 <= v%d <= 2**40' % i for i in range(nsym)]
    if C.has_tsplit(desc):
        pre += ['v%d <= v%d' % (i, i + 1) for i in range(nsym - 1)] + (['0 <= v0'] if n else [])

    def body(a):
        items = list(a) + list(range(nsym, n))
        m = Monitor()
        real, _ = C.build(desc, tap=m.tap)
        obs_ = D.src(items).pipe(rs.state.with_memory_store(list(real)))
        for sub in (1, 2):          # the same pipeline object subscribed a second time must be as well-formed as the first run
            for log in m.logs.values():
                del log[:]
            out = []
            obs_.subscribe(on_next=out.append, on_error=lambda e: out.append(('ERR', type(e).__name__)), on_completed=lambda: out.append(D.END))
            fl = m.flags()
            if fl:
                return fail(pipeline=C.show(desc), subscription=sub, items=items, flags=fl[:5])
            if not out or out[-1] != D.END:
                return fail(pipeline=C.show(desc), subscription=sub, items=items, flags='stream did not complete', out=out)
        return True
    return mk('wellformed', ints('v', nsym), pre, body)


def nested_alloc(p):
    """index allocation under nesting: group_by(outer) > split(segment) > group_by(inner) > count.  Outer group A opens a segment with one inner group and keeps it
    (a low index stays live); outer group B opens a segment with G inner groups, closes it (G indices released above a live one), and opens another with a
    few inner groups, twice.  The inner keys of B's later segments and one segment boundary are symbolic.  Every boundary must stay well-formed: in particular
    no two live keys may share a slot index, whatever the store does with released indices"""
    G = p['g']

    def body(a):
        k0, k1, s0 = a
        items = [('A', 0, 0, 1)] + [('B', 0, j, 2) for j in range(G)] + [('B', 1, 0 if k0 <= 0 else 1, 3), ('B', 1, 2 if k1 <= 0 else 3, 4), ('A', 0, 1, 5),
                                                                        ('B', 1 if s0 <= 0 else 2, 5, 6), ('B', 2, 6, 7), ('A', 1, 0, 8)]
        m = Monitor()
        inner = [m.tap('inner-head'), rs.ops.count(), m.tap('inner-tail')]
        seg = [m.tap('segment-head'), rs.ops.group_by(lambda i: i[2], inner), m.tap('segment-tail')]
        outer = [m.tap('outer-head'), rs.data.split(lambda i: i[1], seg), m.tap('outer-tail')]
        out = []
        D.src(items).pipe(rs.state.with_memory_store([rs.ops.group_by(lambda i: i[0], outer), m.tap('tail')])).subscribe(
            on_next=out.append, on_error=lambda e: out.append(('ERR', type(e).__name__)), on_completed=lambda: out.append(D.END))
        fl = m.flags()
        if fl:
            return fail(inner_groups=G, items=items, flags=fl[:5])
        if not out or out[-1] != D.END:
            return fail(inner_groups=G, items=items, flags='stream did not complete', out=out[-3:])
        return True
    return mk('nested_alloc', [('k0', 'int'), ('k1', 'int'), ('s0', 'int')], ['0 <= k0 <= 1', '0 <= k1 <= 1', '0 <= s0 <= 1'], body)


class _Boom(Exception):
    pass


def raising(p):
    """key mapper / split predicate / time mapper that raises on some items (v % 3 == 0): whatever the operator does with the exception
    (let it propagate, or turn it into a mux error), no ill-formed event may be emitted at any boundary"""
    kind, n = p['kind'], p['n']
    pre = ['-2**40 <= v%d <= 2**40' % i for i in range(n)]

    def f(i):
        if i % 3 == 0:
            raise _Boom(i)
        return i % 2

    def body(a):
        items = list(a)
        m = Monitor()
        inner = [m.tap('in:0'), rs.ops.identity(), m.tap('in:1')]
        def g(i):
            if i % 3 == 0:
                raise _Boom(i)
            return i
        if kind.startswith('pre_'):
            # the error is raised by a map upstream and ENTERS the keyed operator (no handler in between): it may terminate open lifetimes
            # with that error, but must not emit anything for a lifetime that is not open
            k2 = kind[4:]
            body_ = [m.tap('in:0'), rs.ops.count(), m.tap('in:1')]
            kop = {'roll22': lambda: rs.data.roll(2, 2, body_), 'roll31': lambda: rs.data.roll(3, 1, body_), 'split': lambda: rs.data.split(lambda i: i % 2, body_),
                   'group': lambda: rs.ops.group_by(lambda i: i % 2, body_), 'tsplit': lambda: rs.data.time_split(lambda i: i, inactive_timeout=2, pipeline=body_)}[k2]()
            pipe = [rs.ops.map(g), m.tap('out:0'), kop, m.tap('out:1'), rs.error.ignore(), m.tap('out:2')]
            D.src(items).pipe(rs.state.with_memory_store(pipe)).subscribe(on_next=lambda i: None, on_error=lambda e: None)
            fl = m.flags()
            return (not fl) or fail(kind=kind, items=items, flags=fl[:5])
        if kind == 'split':
            op = rs.data.split(f, inner)
        elif kind == 'group':
            op = rs.ops.group_by(f, inner)
        else:
            op = rs.data.time_split(lambda i: (f(i), i)[1], inactive_timeout=2, pipeline=inner)
        pipe = [m.tap('out:0'), op, m.tap('out:1'), rs.error.ignore(), m.tap('out:2')]
        if p.get('parent') == 'roll':
            pipe = [rs.data.roll(2, 2, pipe)]
        try:
            D.src(items).pipe(rs.state.with_memory_store(pipe)).subscribe(on_next=lambda i: None, on_error=lambda e: None)
        except _Boom:
            pass            # the exception of the user function propagated out of subscribe(): nothing ill-formed was emitted
        # only events actually delivered are judged (a run cut short by a propagating exception never completes)
        fl = m.flags()
        return (not fl) or fail(kind=kind, items=items, flags=fl[:5])
    return mk('raising_' + kind, ints('v', n), pre, body)


FAMILIES = {'nested_alloc': nested_alloc, 'wellformed': wellformed, 'raising': raising}

LEAFS = [[['to_list_sum']], [['filter_even'], ['count_r']], [['identity']], [['take1'], ['last']]]


def programs(tier, seed):
    q = tier == 'quick'
    progs = []
    for k in C.KEYED:
        for inner in (LEAFS[:2] if q else LEAFS):
            progs.append((list(k) + [inner],))
        progs.append((['filter_even'], list(k) + [[['scan_add']]]))          # groups/windows emptied upstream
        progs.append((list(k) + [[['filter_odd'], ['to_list_sum']]],))
    # nesting depth 2-3
    ks = C.KEYED
    for i, k1 in enumerate(ks):
        k2 = ks[(i * 5 + 3) % len(ks)]
        k3 = ks[(i * 7 + 1) % len(ks)]
        progs.append((list(k1) + [[list(k2) + [[['to_list_sum']]]]],))
        if not q or i % 3 == 0:
            progs.append((list(k1) + [[list(k2) + [[list(k3) + [[['count_r']]]]]]],))
        progs.append((['tee', ['zip', 'merge', 'combine_latest'][i % 3], [[list(k1) + [[['last']]]], [['filter_even']], [list(k2) + [[['count']]]]]],))
        progs.append((list(k1) + [[['tee', ['zip', 'merge', 'combine_latest'][i % 3], [[['filter_odd']], [list(k2) + [[['scan_add_r']]]]]]]],))
    r = random.Random(2000 + seed)
    seen = set()
    want = 40 if q else 300
    tries = 0
    while len(seen) < want and tries < 50000:
        tries += 1
        d = C.gen(r, r.choice([2, 2, 3]))
        if C.depth_of(d) < 2 or repr(d) in seen:
            continue
        if C.branching(d) ** 3 > (60 if q else 400):
            continue
        seen.add(repr(d))
        progs.append(tuple(d))
    return [list(p) for p in progs]


def obligations(tier, seed):
    obs = []
    q = tier == 'quick'
    b = 120 if q else 900
    g = 4 if q else 5
    for w in range(1, g + 1):
        for s in range(1, g + 1):
            for n in ((0, 1, 3, 6) if q else (0, 1, 2, 3, 5, 7, 9)):
                obs.append(Ob(PROP, 'wellformed', dict(desc=[['roll', w, s, [['to_list_sum']]]], n=n), budget=b, group='roll_grid',
                              bound=dict(w=w, s=s, items=n)))
    for (w, s, n) in ((257, 129, 259), (9, 1, 10), (300, 300, 301), (257, 64, 260)):
        obs.append(Ob(PROP, 'wellformed', dict(desc=[['roll', w, s, [['count_r']]]], n=n, nsym=2), budget=b * 3, group='roll_big', bound=dict(w=w, s=s, items=n)))
    obs.append(Ob(PROP, 'wellformed', dict(desc=[['roll', 9, 1, [['group', 'mod3', [['count_r']]]]]], n=10, nsym=2), budget=b * 3, group='roll_big', bound=dict(w=9, s=1, items=10, inner='group_by')))
    for g in ((3, 10, 18) if q else (2, 3, 9, 10, 17, 18, 34, 66)):
        obs.append(Ob(PROP, 'nested_alloc', dict(g=g), budget=b * 3, group='nested index allocation', bound=dict(pipeline='group_by > split > group_by > count', inner_groups_released_at_once=g, symbolic='two inner keys and one segment boundary')))
    for d in programs(tier, seed):
        br = C.branching(d)
        for n in ((0, 3) if q else (0, 2, 4)):
            if n and br ** n > (100 if q else 600):
                n -= 1
            obs.append(Ob(PROP, 'wellformed', dict(desc=d, n=n), budget=b, group='programs', bound=dict(items=n, pipeline=C.show(d))))
    # NOT registered: kind='pre_*' (an error raised upstream ENTERS a keyed operator because no handler sits directly after the failing operator).
    # C13 specifies handlers placed directly after the failing operator; what stateful operators do with a mux error that reaches them (they treat it as the
    # end of that key's state) and with later items of that key is not specified by any property, so no verdict is claimed there (see DESIGN.md section 9).
    for kind in ('split', 'group', 'tsplit'):
        for parent in (None, 'roll'):
            obs.append(Ob(PROP, 'raising', dict(kind=kind, n=3 if q else 4, parent=parent), budget=b, group='raising user function', bound=dict(items=3 if q else 4, operator=kind, parent=parent)))
    obs.append(Ob(PROP, 'wellformed', dict(desc=[['roll', 3, 2, [['to_list_sum']]]], n=4, _twin='reach'), budget=60, expect='refute'))
    return obs
