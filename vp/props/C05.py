"""C05 roll produces exactly the count-based sliding windows, in order."""
from vp.engine import Ob
from vp.props.common import refdiff

PROP = 'C05'
META = dict(
    explanation='Whole runs of the real roll(w, s, [to_list -> order-sensitive linear digest]) under with_memory_store on N symbolic integer items, for every (w, s) in the grid, '
                'are compared event by event (exact order and emission position) with the reference interpreter: a window opens at items 0, s, 2s, ..., receives the next w consecutive items, '
                'full windows close on their w-th item and the remaining partial windows close at key completion in opening order. The digest is an injective linear form of the window contents, '
                'so equality for all values means each window received exactly its consecutive items in order. Also under group_by with interleaved keys and nested in roll / split. An inductive one-step form presets the real store, through its public API, to the state the invariant prescribes for an arbitrary item counter n = q*P + r (q >= 0 symbolic and unbounded, P one turn of the slot ring) and pushes one item or the key completion: emitted create / item / complete events and the post-state must be those prescribed for n+1 - with the whole runs as base case this covers streams of any length.',
    bounds=dict(quick='(w, s) in 1..4 x 1..4, N <= 7 items (several wraps of the slot ring), any integer values; group_by(mod2) N <= 4; nested N <= 5; inductive step for (w, s) in 1..6 x 1..6, counter unbounded; long runs with windows up to 257 and rings of 17-33 slots; a failing one-step obligation is only reported when the deviation is confirmed through the public API (real roll run from an empty key for the n <= 2^18 items of the counterexample)',
                thorough='(w, s) in 1..6 x 1..6, N <= 13; group_by N <= 6; nested N <= 7; inductive step for (w, s) in 1..12 x 1..12'),
    outside='w or s above the grid; streams longer than the bound (roll state is a counter modulo the ring: see the wraps covered)',
    assumptions=['reference interpreter vp/refsem.py transcribes the property statement', 'synchronous single-threaded delivery'],
    stubs=[],
)


def runs(p):
    q = dict(p)
    w, s, ctx = p['w'], p['s'], p['ctx']
    r = ['roll', w, s, [['to_list_sum']]]
    if ctx == 'root':
        q['desc'] = [r]
    elif ctx == 'stream':       # streaming inner pipeline: items as they flow through windows
        q['desc'] = [['roll', w, s, [['scan_add']]]]
    elif ctx == 'group':
        q['desc'] = [['group', 'mod2', [r]]]
    elif ctx == 'in_roll':
        q['desc'] = [['roll', 3, 2, [r]]]
    elif ctx == 'in_split':
        q['desc'] = [['split', 'div3', [r]]]
    elif ctx == 'in_split2':    # a second lifetime on the slot ring of a roll with many overlapping windows
        q['desc'] = [['split', 'tup2', [r]]]
    elif ctx == 'after':        # a completion-triggered consumer after roll on the same key: partial windows must be flushed before the key's completion is forwarded
        q['desc'] = [r, ['to_list_sum']]
    elif ctx == 'roll_in':      # roll whose windows are rolled again
        q['desc'] = [['roll', w, s, [['roll', 2, 1, [['to_list_sum']]]]]]
    q['mode'] = 'per_t' if ctx in ('stream', 'roll_in', 'in_roll') else 'exact'
    return refdiff(q)


def _open_before(W, S, DENS, n):
    """windows open when item number n (0-based) arrives: starts st = k*S with st < n < st + W, as (slot, start) in opening order"""
    lo = max(0, n - W + 1)
    lo += (-lo) % S
    return [((st // S) % DENS, st) for st in range(lo, n, S) if st + W > n]


def _exp_next(W, S, DENS, n, x):
    exp = []
    cur = _open_before(W, S, DENS, n)
    if n % S == 0:
        slot = (n // S) % DENS
        exp.append(('c', slot))
        cur.append((slot, n))
    for slot in range(DENS):
        for (sl, st) in cur:
            if sl == slot:
                exp.append(('n', x))
                if n - st + 1 == W:
                    exp.append(('d', slot))
    return exp


def _exp_complete(W, S, DENS, n):
    return [('d', slot) for (slot, st) in _open_before(W, S, DENS, n)]


def _confirm_public(W, S, n, x, event):
    """A failure of a one-step obligation is only reported if the real operator, run through the public API from an empty key for n items, deviates too:
    item number n (value x) or the completion after n items, then - so that a damaged post-state shows - one more turn of the ring plus a window of items
    and the completion.  Otherwise the failure is an artefact of the pre-state this harness wrote into the store (the representation is free to change)."""
    import rxsci as rs
    from rx.subject import Subject
    from vp.harness import Inconclusive
    if n > 2 ** 18:
        raise Inconclusive('one-step counterexample at item %d: too long a stream to confirm through the public API' % n)
    DENS = -(-W // S)
    events = []
    store = rs.state.StoreManager(store_factory=rs.state.MemoryStore)
    src = Subject()
    tapop = rs.ops.do_action(on_next=lambda i: events.append(('n', i)), on_create=lambda k: events.append(('c', k[0])), on_completed=lambda k: events.append(('d', None if k is None else k[0])))
    src.pipe(rs.cast_as_mux_observable(), rs.state.with_store(store, [rs.data.roll(W, S, [tapop])])).subscribe(on_error=lambda e: events.append(('ERR', repr(e))))
    src.on_next(rs.OnCreateMux((0,), store=store))
    for j in range(n):
        src.on_next(rs.OnNextMux((0,), 0, store=store))
    del events[:]
    if event == 'complete':
        src.on_next(rs.OnCompletedMux((0,), store=store))
        if events == _exp_complete(W, S, DENS, n):
            raise Inconclusive('pre-state artefact: run from an empty key for %d items, the real roll completes as expected' % n)
        return
    exp = []
    more = S * DENS + W
    for j in range(more + 1):
        v = x if j == 0 else j
        src.on_next(rs.OnNextMux((0,), v, store=store))
        exp += _exp_next(W, S, DENS, n + j, v)
    src.on_next(rs.OnCompletedMux((0,), store=store))
    exp += _exp_complete(W, S, DENS, n + more + 1)
    if events == exp:
        raise Inconclusive('pre-state artefact: run from an empty key for %d items, the real roll behaves as expected on item %d and the %d after it' % (n, n, more))


def _calibrate(W, S, DENS, rr):
    """the one-step form presets the store through knowledge of roll's state representation (state 0 = item counter, state 1 = ring of window starts, slot
    (start / stride) mod density).  Before judging, that knowledge is checked against the real operator run concretely for rr items from an empty key; if the
    representation has changed the obligation is inconclusive, never a violation."""
    import rxsci as rs
    from rx.subject import Subject
    from vp.harness import Inconclusive
    try:
        store = rs.state.StoreManager(store_factory=rs.state.MemoryStore)
        src = Subject()
        src.pipe(rs.cast_as_mux_observable(), rs.state.with_store(store, [rs.data.roll(W, S, [rs.ops.identity()])])).subscribe(on_error=lambda e: None)
        src.on_next(rs.OnCreateMux((0,), store=store))
        for j in range(rr):
            src.on_next(rs.OnNextMux((0,), j, store=store))
        ok = store.get_state(0, (0,)) == rr
        for c in range(0, rr, S):
            open_ = c < rr and c + W > rr
            got = store.get_state(1, ((c // S) % DENS, (0,)))
            if open_ and got != c:
                ok = False
    except Exception:
        ok = False
    if not ok:
        raise Inconclusive('roll no longer keeps (counter, ring of window starts) the way this one-step harness presets it')


def _calibrate_count(W, c):
    """the tumbling one-step form presets state 0 with the number of items already in the current window; checked against the real operator run for c items"""
    import rxsci as rs
    from rx.subject import Subject
    from vp.harness import Inconclusive
    try:
        store = rs.state.StoreManager(store_factory=rs.state.MemoryStore)
        src = Subject()
        src.pipe(rs.cast_as_mux_observable(), rs.state.with_store(store, [rs.data.roll(W, W, [rs.ops.identity()])])).subscribe(on_error=lambda e: None)
        src.on_next(rs.OnCreateMux((0,), store=store))
        ok = True
        for j in range(c + 1):
            if store.get_state(0, (0,)) != j % W:
                ok = False
            src.on_next(rs.OnNextMux((0,), j, store=store))
    except Exception:
        ok = False
    if not ok:
        raise Inconclusive('tumbling roll no longer keeps the in-window item count in state 0 the way this one-step harness presets it')


def step(p):
    """One event on roll_mux from the state the invariant prescribes for an arbitrary item counter n = q*P + r
    (P = stride * ceil(window/stride) = one turn of the slot ring; q >= 0 symbolic and unbounded, r concretised by cascade):
    open windows are exactly the starts k*s with k*s <= n-1 < k*s + w - 1 ... i.e. start < n < start + w, each in slot (start/s) mod density.
    Together with the whole runs as base case this covers streams of any length."""
    import rxsci as rs
    from rx.subject import Subject
    from vp.harness import mk, fail
    from vp import harness
    W, S, event = p['w'], p['s'], p['event']
    DENS = -(-W // S)
    P = S * DENS

    def body(a):
        q, r, x = a
        rr = 0
        for c in range(P):
            if r == c:
                rr = c
        n = q * P + rr
        _calibrate(W, S, DENS, rr)
        try:
            ok, detail = judge(q, rr, n, x)
        except harness.Inconclusive:
            raise
        except Exception as e:      # the preset or the event raised: judged like any other deviation, i.e. only believed if it shows through the public API
            ok, detail = False, dict(w=W, s=S, n=n, event=event, exception=repr(e))
        if not ok and harness.CONCRETE[0]:
            _confirm_public(W, S, n, x, event)
        return ok or fail(**detail)

    def judge(q, rr, n, x):
        store = rs.state.StoreManager(store_factory=rs.state.MemoryStore)
        events = []
        src = Subject()
        tapop = rs.ops.do_action(on_next=lambda i: events.append(('n', i)), on_create=lambda k: events.append(('c', k[0])), on_completed=lambda k: events.append(('d', None if k is None else k[0])))
        src.pipe(rs.cast_as_mux_observable(), rs.state.with_store(store, [rs.data.roll(W, S, [tapop])])).subscribe(on_error=lambda e: events.append(('ERR', repr(e))))
        src.on_next(rs.OnCreateMux((0,), store=store))
        # install the pre-state for counter n through the public store API (state 0 = item counter, state 1 = window slots)
        store.set_state(0, (0,), n)
        for off in range(DENS):
            store.set_state(1, (off, (0,)), -1)
        exp_open = []
        base = q * P
        for c in range(-P, rr + 1, S):          # candidate starts base + c
            start = base + c
            if c < rr and c + W > rr and start >= 0:
                slot = (c // S) % DENS
                store.set_state(1, (slot, (0,)), start)
                exp_open.append((slot, start))
        del events[:]
        if event == 'next':
            src.on_next(rs.OnNextMux((0,), x, store=store))
            exp = []
            cur = list(exp_open)
            if rr % S == 0:
                slot = (rr // S) % DENS
                exp.append(('c', slot))
                cur.append((slot, n))
            after = {}
            for slot in range(DENS):
                for (sl, st) in cur:
                    if sl == slot:
                        exp.append(('n', x))
                        if n - st + 1 == W:
                            exp.append(('d', slot))
                        else:
                            after[slot] = st
            ok = events == exp and store.get_state(0, (0,)) == n + 1
            for slot in range(DENS):
                if store.get_state(1, (slot, (0,))) != after.get(slot, -1):
                    ok = False
            return ok, dict(w=W, s=S, n=n, observed=events, expected=exp, counter_after=store.get_state(0, (0,)))
        src.on_next(rs.OnCompletedMux((0,), store=store))
        exp = [('d', slot) for (slot, st) in exp_open]      # exp_open is built in increasing start order = opening order
        ok = events == exp
        for slot in range(DENS):
            if store.get_state(1, (slot, (0,))) != -1:
                ok = False
        return ok, dict(w=W, s=S, n=n, event='complete', observed=events, expected=exp)
    return mk('roll_step', [('q', 'int'), ('r', 'int'), ('x', 'int')], ['q >= 0', '0 <= r < %d' % P, '-2**40 <= x <= 2**40'], body)


def step_count(p):
    """tumbling fast path (window == stride): one event from an arbitrary in-window count 0 <= c < w"""
    import rxsci as rs
    from rx.subject import Subject
    from vp.harness import mk, fail
    from vp import harness
    W, event = p['w'], p['event']

    def body(a):
        c0, x = a
        c = 0
        for k in range(W):
            if c0 == k:
                c = k
        _calibrate_count(W, c)
        try:
            ok, detail = judge(c, x)
        except harness.Inconclusive:
            raise
        except Exception as e:
            ok, detail = False, dict(w=W, count=c, event=event, exception=repr(e))
        if not ok and harness.CONCRETE[0]:
            _confirm_public(W, W, c, x, event)
        return ok or fail(**detail)

    def judge(c, x):
        store = rs.state.StoreManager(store_factory=rs.state.MemoryStore)
        events = []
        src = Subject()
        tapop = rs.ops.do_action(on_next=lambda i: events.append(('n', i)), on_create=lambda k: events.append(('c', k[0])), on_completed=lambda k: events.append(('d', None if k is None else k[0])))
        src.pipe(rs.cast_as_mux_observable(), rs.state.with_store(store, [rs.data.roll(W, W, [tapop])])).subscribe(on_error=lambda e: events.append(('ERR', repr(e))))
        src.on_next(rs.OnCreateMux((0,), store=store))
        store.set_state(0, (0,), c)
        del events[:]
        if event == 'next':
            src.on_next(rs.OnNextMux((0,), x, store=store))
            exp = ([('c', 0)] if c == 0 else []) + [('n', x)] + ([('d', 0)] if c + 1 == W else [])
            want = 0 if c + 1 == W else c + 1
            ok = events == exp and store.get_state(0, (0,)) == want
            return ok, dict(w=W, count=c, observed=events, expected=exp, count_after=store.get_state(0, (0,)))
        src.on_next(rs.OnCompletedMux((0,), store=store))
        exp = [('d', 0)] if c > 0 else []
        ok = events == exp
        return ok, dict(w=W, count=c, event='complete', observed=events, expected=exp)
    return mk('roll_step_count', [('c0', 'int'), ('x', 'int')], ['0 <= c0 < %d' % W, '-2**40 <= x <= 2**40'], body)


FAMILIES = {'runs': runs, 'step': step, 'step_count': step_count}


def obligations(tier, seed):
    obs = []
    q = tier == 'quick'
    g = 4 if q else 6
    nmax = 7 if q else 13
    for w in range(1, g + 1):
        for s in range(1, g + 1):
            for n in range(0, nmax + 1):
                obs.append(Ob(PROP, 'runs', dict(ctx='root', w=w, s=s, n=n), budget=90 if q else 300, bound=dict(w=w, s=s, items=n, values='any int')))
    for (w, s) in ((2, 1), (3, 2), (2, 3), (3, 1)) if q else ((2, 1), (3, 2), (2, 3), (3, 1), (4, 3), (5, 2), (1, 1), (2, 2)):
        for n in ((3, 4) if q else (3, 4, 5, 6)):
            obs.append(Ob(PROP, 'runs', dict(ctx='group', w=w, s=s, n=n), budget=120 if q else 600, bound=dict(w=w, s=s, items=n, groups=2)))
        for ctx in ('in_roll', 'in_split', 'roll_in', 'stream', 'after'):
            for n in (((3, 4) if ctx == 'in_split' else (4, 5)) if q else (4, 5, 6)):
                obs.append(Ob(PROP, 'runs', dict(ctx=ctx, w=w, s=s, n=n), budget=120 if q else 600, bound=dict(w=w, s=s, items=n, ctx=ctx)))
    for (w, s) in ((2, 2), (3, 3), (1, 1)):
        for n in (3, 4, 5):
            obs.append(Ob(PROP, 'runs', dict(ctx='after', w=w, s=s, n=n), budget=120 if q else 600, bound=dict(w=w, s=s, items=n, ctx='after')))
    for (w, s, n) in ((8, 8, 17), (9, 8, 26), (16, 5, 33), (17, 16, 35), (32, 3, 40), (7, 2, 30), (12, 12, 25), (5, 9, 30), (9, 1, 10), (10, 1, 25), (17, 1, 20), (20, 2, 45), (257, 257, 259), (257, 129, 260)) if q else \
            ((8, 8, 17), (9, 8, 26), (16, 5, 33), (17, 16, 35), (32, 3, 40), (7, 2, 30), (12, 12, 25), (5, 9, 30), (9, 1, 10), (10, 1, 25), (17, 1, 20), (20, 2, 45), (257, 257, 259), (257, 129, 260), (33, 32, 70), (64, 7, 80), (10, 1, 40), (3, 1, 64), (2, 2, 65), (1000, 1000, 1001)):
        obs.append(Ob(PROP, 'runs', dict(ctx='root', w=w, s=s, n=n, nsym=4), budget=240 if q else 900, group='long runs (value-independent control flow: one path)', bound=dict(w=w, s=s, items=n, values='4 symbolic items, the rest concrete')))
    for (w, s) in ((17, 1), (9, 2), (33, 2)):
        for n in (3, 4):
            obs.append(Ob(PROP, 'runs', dict(ctx='in_split2', w=w, s=s, n=n), budget=240 if q else 900, group='long runs (value-independent control flow: one path)', bound=dict(w=w, s=s, items=n, ctx='split > roll with a large ring')))
    gi = 6 if q else 12
    for w in range(1, gi + 1):
        for s in range(1, gi + 1):
            for ev in ('next', 'complete'):
                if w == s:
                    obs.append(Ob(PROP, 'step_count', dict(w=w, event=ev), budget=120 if q else 300, group='inductive step (tumbling)', bound=dict(w=w, s=s, count='any value of the invariant 0 <= count < w')))
                else:
                    obs.append(Ob(PROP, 'step', dict(w=w, s=s, event=ev), budget=120 if q else 300, group='inductive step (unbounded counter)',
                                  bound=dict(w=w, s=s, counter='n = q*P + r, q >= 0 unbounded')))
    for (w, s) in ((3, 1), (2, 3), (3, 3), (3, 2)):
        for k in (1, 2):
            obs.append(Ob(PROP, 'runs', dict(ctx='root', w=w, s=s, n=4, retry=k), budget=90 if q else 300, group='after an aborted subscription', bound=dict(w=w, s=s, items=4, first_subscription_aborted_after=k)))
    obs.append(Ob(PROP, 'runs', dict(ctx='root', w=3, s=2, n=5, _twin='reach'), budget=60, expect='refute'))
    obs.append(Ob(PROP, 'step', dict(w=5, s=2, event='next', _twin='reach'), budget=60, expect='refute'))
    return obs
