"""C05 roll produces exactly the count-based sliding windows, in order."""
from vp.engine import Ob
from vp.props.common import refdiff

PROP = 'C05'
META = dict(
    explanation='Whole runs of the real roll(w, s, [to_list -> order-sensitive linear digest]) under with_memory_store on N symbolic integer items, for every (w, s) in the grid, '
                'are compared event by event (exact order and emission position) with the reference interpreter: a window opens at items 0, s, 2s, ..., receives the next w consecutive items, '
                'full windows close on their w-th item and the remaining partial windows close at key completion in opening order. The digest is an injective linear form of the window contents, '
                'so equality for all values means each window received exactly its consecutive items in order. Also under group_by with interleaved keys and nested in roll / split.',
    bounds=dict(quick='(w, s) in 1..4 x 1..4, N <= 7 items (several wraps of the slot ring), any integer values; group_by(mod2) N <= 4; nested N <= 5',
                thorough='(w, s) in 1..6 x 1..6, N <= 13; group_by N <= 6; nested N <= 7'),
    outside='w or s above the grid; streams longer than the bound (roll state is a counter modulo the ring: see the wraps covered)',
    assumptions=['reference interpreter vp/refsem.py transcribes the property statement', 'synchronous single-threaded delivery'],
    stubs=[],
)


def runs(p):
    q = dict(p)
    w, s, ctx = p['w'], p['s'], p['ctx']
    r = ['roll', w, s, [['to_list_sum']]]
    if ctx == 'root':
        q['desc'] = [r]
    elif ctx == 'stream':       # streaming inner pipeline: items as they flow through windows
        q['desc'] = [['roll', w, s, [['scan_add']]]]
    elif ctx == 'group':
        q['desc'] = [['group', 'mod2', [r]]]
    elif ctx == 'in_roll':
        q['desc'] = [['roll', 3, 2, [r]]]
    elif ctx == 'in_split':
        q['desc'] = [['split', 'div3', [r]]]
    elif ctx == 'roll_in':      # roll whose windows are rolled again
        q['desc'] = [['roll', w, s, [['roll', 2, 1, [['to_list_sum']]]]]]
    q['mode'] = 'per_t' if ctx in ('stream', 'roll_in', 'in_roll') else 'exact'
    return refdiff(q)


FAMILIES = {'runs': runs}


def obligations(tier, seed):
    obs = []
    q = tier == 'quick'
    g = 4 if q else 6
    nmax = 7 if q else 13
    for w in range(1, g + 1):
        for s in range(1, g + 1):
            for n in range(0, nmax + 1):
                obs.append(Ob(PROP, 'runs', dict(ctx='root', w=w, s=s, n=n), budget=90 if q else 300, bound=dict(w=w, s=s, items=n, values='any int')))
    for (w, s) in ((2, 1), (3, 2), (2, 3), (3, 1)) if q else ((2, 1), (3, 2), (2, 3), (3, 1), (4, 3), (5, 2), (1, 1), (2, 2)):
        for n in ((3, 4) if q else (3, 4, 5, 6)):
            obs.append(Ob(PROP, 'runs', dict(ctx='group', w=w, s=s, n=n), budget=120 if q else 600, bound=dict(w=w, s=s, items=n, groups=2)))
        for ctx in ('in_roll', 'in_split', 'roll_in', 'stream'):
            for n in (((3, 4) if ctx == 'in_split' else (4, 5)) if q else (4, 5, 6)):
                obs.append(Ob(PROP, 'runs', dict(ctx=ctx, w=w, s=s, n=n), budget=120 if q else 600, bound=dict(w=w, s=s, items=n, ctx=ctx)))
    obs.append(Ob(PROP, 'runs', dict(ctx='root', w=3, s=2, n=5, _twin='reach'), budget=60, expect='refute'))
    return obs
