"""Sources, runners and taps around the real rxsci operators."""
import rx
import rxsci as rs
from rx.subject import Subject

END = 'END'


def src(items):
    """cold observable pushing items synchronously then completing"""
    def sub(observer, scheduler=None):
        for i in items:
            observer.on_next(i)
        observer.on_completed()
    return rx.create(sub)


def _err(e):
    return ('ERR', type(e).__name__)


def run_plain(items, ops):
    out = []
    src(items).pipe(*ops).subscribe(on_next=out.append, on_error=lambda e: out.append(_err(e)))
    return out


def run_mux(items, ops):
    """items -> with_memory_store(ops) (the root key (0,))"""
    out = []
    src(items).pipe(rs.state.with_memory_store(list(ops))).subscribe(
        on_next=out.append, on_error=lambda e: out.append(_err(e)))
    return out


def run_mux_done(items, ops):
    """like run_mux but also reports completion"""
    out = []
    src(items).pipe(rs.state.with_memory_store(list(ops))).subscribe(
        on_next=out.append, on_error=lambda e: out.append(_err(e)), on_completed=lambda: out.append(END))
    return out


def run_timed(items, ops, mux=True, snap=None):
    """drive the pipeline with a Subject; every output is stamped with the
    index of the source item being processed (len(items) = completion)"""
    tr = []
    cur = [0]
    s = Subject()
    snap = snap or (lambda v: v)
    p = rs.state.with_memory_store(list(ops)) if mux else rx.pipe(*ops)
    s.pipe(p).subscribe(on_next=lambda v: tr.append((cur[0], snap(v))),
                        on_error=lambda e: tr.append((cur[0], _err(e))))
    for t, v in enumerate(items):
        cur[0] = t
        s.on_next(v)
    cur[0] = len(items)
    s.on_completed()
    return tr


def tap(log, snap=None):
    """pass-through MuxObservable operator recording the mux events it sees:
    ('c', idx) ('n', idx, item) ('d', idx) ('e', idx)"""
    def _tap(source):
        def on_subscribe(observer, scheduler):
            def on_next(i):
                t = type(i)
                if t is rs.OnCreateMux:
                    log.append(('c', i.key[0], i.key))
                elif t is rs.OnCompletedMux:
                    log.append(('d', i.key[0], i.key))
                elif t is rs.OnNextMux:
                    log.append(('n', i.key[0], snap(i.item) if snap else i.item, i.key))
                elif t is rs.OnErrorMux:
                    log.append(('e', i.key[0], i.key))
                observer.on_next(i)

            def on_completed():
                log.append(('END',))
                observer.on_completed()
            return source.subscribe(on_next=on_next, on_error=observer.on_error,
                                    on_completed=on_completed, scheduler=scheduler)
        return rs.MuxObservable(on_subscribe)
    return _tap


def lifetimes(log):
    """split a tap log into per-lifetime item lists, in order of creation.
    Returns (lifetimes, wellformed)"""
    open_ = {}
    res = []
    ok = True
    for ev in log:
        if ev[0] == 'c':
            if ev[1] in open_:
                ok = False
            cur = []
            open_[ev[1]] = cur
            res.append(cur)
        elif ev[0] == 'n':
            if ev[1] not in open_:
                ok = False
            else:
                open_[ev[1]].append(ev[2])
        elif ev[0] in ('d', 'e'):
            if ev[0] == 'd':
                if ev[1] not in open_:
                    ok = False
                else:
                    del open_[ev[1]]
    if open_:
        ok = False
    return res, ok


def mux_events(events, ops, snap=None):
    """feed hand-built mux events (with arbitrary key indices) through ops with a
    memory store; returns the tap log at the tail"""
    log = []
    out_err = []

    def sub(observer, scheduler=None):
        for e in events:
            observer.on_next(e)
        observer.on_completed()
    source = rs.MuxObservable(sub)
    store = rs.state.StoreManager(store_factory=rs.state.MemoryStore)
    source.pipe(rs.state.with_store(store, list(ops) + [tap(log, snap)])).subscribe(
        on_next=lambda i: None, on_error=lambda e: out_err.append(_err(e)))
    return log, out_err


def failing_src(prefix):
    """cold observable pushing the prefix then failing at the Rx level (on_error): keys are never completed"""
    def sub(observer, scheduler=None):
        for i in prefix:
            observer.on_next(i)
        observer.on_error(RuntimeError('source failed'))
    return rx.create(sub)


def abort_first(pipe_op, prefix):
    """first subscription of a pipeline operator (e.g. with_memory_store([...]) or rx.pipe(*ops)) on a source that fails after ``prefix``;
    outputs are discarded.  Whatever state the operator objects keep outside a subscription is now dirty: a later subscription of the
    same operator objects (ops.retry, a re-run of a pipeline built once) must behave like a first one."""
    failing_src(prefix).pipe(pipe_op).subscribe(on_next=lambda i: None, on_error=lambda e: None)


def run_timed_after_abort(items, ops, k, mux=True, snap=None):
    """like run_timed, but the same operator objects first serve a subscription that is aborted after k items"""
    tr = []
    cur = [0]
    snap = snap or (lambda v: v)
    p = rs.state.with_memory_store(list(ops)) if mux else rx.pipe(*ops)
    abort_first(p, items[:k])
    s = Subject()
    s.pipe(p).subscribe(on_next=lambda v: tr.append((cur[0], snap(v))), on_error=lambda e: tr.append((cur[0], _err(e))))
    for t, v in enumerate(items):
        cur[0] = t
        s.on_next(v)
    cur[0] = len(items)
    s.on_completed()
    return tr


def flaky_src(items, k):
    """cold observable whose FIRST subscription pushes items[:k] and then fails at the Rx level (no key completion); every later subscription pushes all the
    items and completes.  ``flaky_src(...).pipe(op)`` subscribed repeatedly is what ops.retry does with a pipeline: the same observable object, the same operator
    closures, the same store."""
    n = [0]

    def sub(observer, scheduler=None):
        n[0] += 1
        if n[0] == 1:
            for i in items[:k]:
                observer.on_next(i)
            observer.on_error(RuntimeError('source failed'))
            return
        for i in items:
            observer.on_next(i)
        observer.on_completed()
    return rx.create(sub)
