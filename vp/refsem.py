"""Prototype event-level reference interpreter (intended semantics)."""
import copy
NOT = object()
class Op:
    def create(self, l): pass
    def next(self, l, v): return [v]
    def complete(self, l): return []
class Map(Op):
    def __init__(self, f): self.f = f
    def next(self, l, v): return [self.f(v)]
class Filter(Op):
    def __init__(self, p): self.p = p
    def next(self, l, v): return [v] if self.p(v) else []
class FlatMap(Op):
    def next(self, l, v): return list(v)
class Scan(Op):
    def __init__(self, f, seed, reduce=False, terminator=None):
        self.f, self.seed, self.reduce, self.term = f, seed, reduce, terminator; self.st = {}
    def _seed(self): return self.seed() if callable(self.seed) else copy.deepcopy(self.seed)
    def create(self, l): self.st[l] = NOT
    def next(self, l, v):
        a = self.st[l]
        if a is NOT: a = self._seed()
        a = self.f(a, v); self.st[l] = a
        return [] if self.reduce else [a]
    def complete(self, l):
        out = []
        a = self.st.pop(l)
        if self.term:
            if a is NOT: a = self._seed()
            a = self.term(a)
            if not self.reduce: out.append(a)
        if self.reduce:
            if a is NOT: a = self._seed()
            out.append(a)
        return out
class First(Op):
    def __init__(self): self.st = {}
    def create(self, l): self.st[l] = False
    def next(self, l, v):
        if self.st[l]: return []
        self.st[l] = True; return [v]
class Take(Op):
    def __init__(self, n): self.n = n; self.st = {}
    def create(self, l): self.st[l] = self.n
    def next(self, l, v):
        if self.st[l] > 0: self.st[l] -= 1; return [v]
        return []
class Last(Op):
    def __init__(self): self.st = {}
    def create(self, l): self.st[l] = NOT
    def next(self, l, v): self.st[l] = v; return []
    def complete(self, l):
        v = self.st.pop(l); return [] if v is NOT else [v]
class Duc(Op):
    def __init__(self): self.st = {}
    def create(self, l): self.st[l] = NOT
    def next(self, l, v):
        p = self.st[l]; self.st[l] = v
        return [v] if (p is NOT or p != v) else []
class Batch(Op):
    def __init__(self, n): self.n = n; self.st = {}
    def create(self, l): self.st[l] = []
    def next(self, l, v):
        b = self.st[l]; b.append(v)
        if len(b) == self.n: self.st[l] = []; return [b]
        return []
    def complete(self, l):
        b = self.st.pop(l); return [b] if b else []
class Lag(Op):
    def __init__(self, n): self.n = n; self.st = {}
    def create(self, l): self.st[l] = []
    def next(self, l, v):
        h = self.st[l]; h.append(v)
        return [(h[max(0, len(h) - 1 - self.n)], v)]
class PadStart(Op):
    def __init__(self, n, val=None): self.n, self.val = n, val; self.st = {}
    def create(self, l): self.st[l] = False
    def next(self, l, v):
        if self.st[l]: return [v]
        self.st[l] = True
        return [self.val if self.val is not None else v] * self.n + [v]
class PadEnd(Op):
    def __init__(self, n, val=None): self.n, self.val = n, val; self.st = {}
    def create(self, l): self.st[l] = NOT
    def next(self, l, v): self.st[l] = v; return [v]
    def complete(self, l):
        v = self.st.pop(l)
        if v is NOT: return []
        return [self.val if self.val is not None else v] * self.n
class Distinct(Op):
    def __init__(self): self.st = {}
    def create(self, l): self.st[l] = []
    def next(self, l, v):
        if v in self.st[l]: return []
        self.st[l].append(v); return [v]
class Pipe(Op):
    def __init__(self, ops): self.ops = ops
    def create(self, l):
        for o in self.ops: o.create(l)
    def _push(self, i, l, vals):
        for k in range(i, len(self.ops)):
            nxt = []
            for v in vals: nxt += self.ops[k].next(l, v)
            vals = nxt
        return vals
    def next(self, l, v): return self._push(0, l, [v])
    def complete(self, l):
        out = []
        carry = []
        for k, o in enumerate(self.ops):
            # items carried from upstream completion outputs go through this op first, then its own completion outputs
            nxt = []
            for v in carry: nxt += o.next(l, v)
            nxt += o.complete(l)
            carry = nxt
        return carry
class Keyed(Op):
    """base for group_by/roll/split/time_split: inner lifetimes are (tag, parent, ident)"""
    def __init__(self, inner): self.inner = Pipe(inner); self.open = {}
    def create(self, l): self.open[l] = []          # open inner lifetimes in opening order
    def _open(self, l, ident):
        il = (id(self), l, ident); self.open[l].append(il); self.inner.create(il); return il
    def _close(self, l, il):
        self.open[l].remove(il); return self.inner.complete(il)
    def complete(self, l):
        out = []
        for il in list(self.open[l]): out += self._close(l, il)
        del self.open[l]
        return out
class GroupBy(Keyed):
    def __init__(self, km, inner): super().__init__(inner); self.km = km; self.map = {}
    def next(self, l, v):
        k = self.km(v)
        for (kk, il) in self.map.setdefault(l, []):
            if kk == k: break
        else:
            il = self._open(l, ('g', len(self.map[l]))); self.map[l].append((k, il))
        return self.inner.next(il, v)
    def complete(self, l):
        self.map.pop(l, None); return super().complete(l)
class Roll(Keyed):
    def __init__(self, w, s, inner): super().__init__(inner); self.w, self.s = w, s; self.n = {}; self.cnt = {}
    def create(self, l): super().create(l); self.n[l] = 0
    def next(self, l, v):
        n = self.n[l]; out = []
        if n % self.s == 0:
            il = self._open(l, ('w', n)); self.cnt[il] = 0
        for il in list(self.open[l]):
            out += self.inner.next(il, v); self.cnt[il] += 1
            if self.cnt[il] == self.w: out += self._close(l, il)
        self.n[l] = n + 1
        return out
class Split(Keyed):
    def __init__(self, pred, inner): super().__init__(inner); self.pred = pred; self.cur = {}; self.k = {}
    def create(self, l): super().create(l); self.cur[l] = NOT; self.k[l] = 0
    def next(self, l, v):
        p = self.pred(v); out = []
        if self.cur[l] is NOT:
            self.cur[l] = p; self._open(l, ('s', self.k[l]))
        elif p != self.cur[l]:
            out += self._close(l, self.open[l][0]); self.k[l] += 1; self.cur[l] = p; self._open(l, ('s', self.k[l]))
        return out + self.inner.next(self.open[l][0], v)
class TimeSplit(Keyed):
    def __init__(self, tm, active, inactive, closing, include, inner):
        super().__init__(inner); self.tm, self.a, self.i, self.cl, self.inc = tm, active, inactive, closing, include; self.st = {}; self.k = {}
    def create(self, l): super().create(l); self.st[l] = NOT; self.k[l] = 0
    def _new(self, l):
        self.k[l] += 1; return self._open(l, ('t', self.k[l]))
    def next(self, l, v):
        t = self.tm(v); out = []
        if self.st[l] is NOT:
            self.st[l] = (t, t); self._new(l)
        start, last = self.st[l]
        if (self.a is not None and t >= start + self.a) or (self.i is not None and t >= last + self.i):
            out += self._close(l, self.open[l][0]); self._new(l); self.st[l] = (t, t)
        elif self.cl is not None and self.cl(v) is True:
            self.st[l] = (t, t)
            if self.inc:
                out += self.inner.next(self.open[l][0], v)
                out += self._close(l, self.open[l][0]); self._new(l)
                return out
            out += self._close(l, self.open[l][0]); self._new(l)
        else:
            self.st[l] = (start, t)
        return out + self.inner.next(self.open[l][0], v)
class Tee(Op):
    def __init__(self, branches, join): self.b = [Pipe(x) for x in branches]; self.join = join; self.q = {}; self.has = {}
    def create(self, l):
        for b in self.b: b.create((id(b), l))
        self.q[l] = [None] * len(self.b); self.has[l] = [False] * len(self.b)
    def _join(self, l, i, vals):
        out = []
        for v in vals:
            if self.join == 'merge': out.append(v); continue
            self.q[l][i] = v; self.has[l][i] = True
            if self.join == 'combine_latest': out.append(tuple(self.q[l]))
            elif all(self.has[l]):
                out.append(tuple(self.q[l])); self.has[l] = [False] * len(self.b); self.q[l] = [None] * len(self.b)
        return out
    def next(self, l, v):
        out = []
        for i, b in enumerate(self.b): out += self._join(l, i, b.next((id(b), l), v))
        return out
    def complete(self, l):
        out = []
        for i, b in enumerate(self.b): out += self._join(l, i, b.complete((id(b), l)))
        del self.q[l], self.has[l]
        return out
def run(ops, items):
    """returns timed trace [(t, value)], t = index of source item, END = len(items)"""
    p = Pipe(ops); root = ('root',); p.create(root); tr = []
    for t, v in enumerate(items):
        for o in p.next(root, v): tr.append((t, copy.deepcopy(o)))
    for o in p.complete(root): tr.append((len(items), copy.deepcopy(o)))
    return tr
class DucK(Op):
    """distinct_until_changed with an optional key mapper"""
    def __init__(self, km=None): self.km = km; self.st = {}
    def create(self, l): self.st[l] = NOT
    def next(self, l, v):
        k = self.km(v) if self.km else v
        p = self.st[l]; self.st[l] = k
        return [v] if (p is NOT or p != k) else []
class StartWith(Op):
    def __init__(self, padding): self.pad = list(padding); self.st = {}
    def create(self, l): self.st[l] = False
    def next(self, l, v):
        if self.st[l]: return [v]
        self.st[l] = True
        return self.pad + [v]
def values(trace):
    return [v for _, v in trace]
def per_t(trace):
    """timed trace -> {t: sorted reprs} (per-t multiset comparison mode)"""
    d = {}
    for t, v in trace:
        d.setdefault(t, []).append(v)
    return d
