"""Regenerates /verif/MANIFEST.json from the table below (python -m vp.mkmanifest)."""
import json
import os

ROOT = os.path.dirname(os.path.dirname(os.path.abspath(__file__)))

SYMX = ('bounded symbolic execution of the real rxsci code (CrossHair 0.0.110 per-path, z3 5.1): inputs are solver variables, the property is the harness postcondition, '
        'CONFIRMED only when every feasible path within the stated bound was explored; counterexamples are replayed concretely on the real code before being reported')

# property -> (technique, level text, level note, design ref)
CHECKS = {
    'C04': ('solver-based: symbolic execution (CrossHair+z3) of real group_by vs reference interpreter',
            'For every sequence of N<=4 (thorough 6) arbitrary integers and 7 key mappers (equal-not-identical keys), the real group_by output trace (values, order, emission position) equals the reference semantics; also nested in group_by/roll/split. ' + SYMX,
            'trusted: CrossHair/z3, vp/refsem.py reference interpreter (transcribes the statement), RxPY synchronous delivery; bounds in evidence', '4/C04'),
    'C05': ('solver-based: symbolic execution (CrossHair+z3) of real roll vs reference interpreter, (w,s) grid',
            'For every (w,s) in 1..4 x 1..4 (thorough 1..6) and every stream of N<=7 (thorough 13) arbitrary integers the real roll emits exactly the sliding windows of the statement, in closing/opening order, checked through an injective linear digest of window contents; also under group_by and nested. ' + SYMX,
            'trusted: CrossHair/z3, vp/refsem.py; window/stride outside the grid and longer streams are outside the claim', '4/C05'),
    'C06': ('solver-based: symbolic execution (CrossHair+z3) of real split vs reference interpreter',
            'For every sequence of N<=4 (thorough 6) arbitrary integers and predicates returning fresh tuples / run-time strings, real split segments = maximal runs by != ; empty key, nested and group_by contexts. ' + SYMX,
            'trusted: CrossHair/z3, vp/refsem.py', '4/C06'),
    'C07': ('solver-based: symbolic execution (CrossHair+z3) of real time_split with symbolic timestamps and timeouts',
            'Timestamps are symbolic non-decreasing integers, both timeouts symbolic in 1..8 (or None), closing flags symbolic: the item->window partition of the real time_split equals the reference for all of them, N<=4 (thorough 6), also under group_by. ' + SYMX,
            'trusted: CrossHair/z3, vp/refsem.py; integers stand for datetime/timedelta (ordered abelian group: the operator only uses >= and +)', '4/C07'),
    'C09': ('solver-based: symbolic execution (CrossHair+z3) of real scan vs left fold, plus one-step inductive form on scan_mux',
            'Whole runs (plain, mux root, 2 interleaved groups, successive roll lifetimes) of scan with 4 accumulators incl. a mutating list append, seed as value/factory, reduce/terminator on/off equal the left fold for all N<=4 (thorough 6) integers; one-step obligations from an arbitrary stored accumulator cover keys of any length; derived operators vs their fold. ' + SYMX,
            'trusted: CrossHair/z3; distogram replaced by a stub for dist.update (structure only)', '4/C09'),
    'C10': ('solver-based: symbolic execution (CrossHair+z3) of each sequence operator vs its list definition',
            'One obligation per operator x mode x length x parameter: N<=5 (thorough 7) items each an arbitrary int or None; first/last/take/distinct/distinct_until_changed/lag/pad_start/pad_end/start_with/batch/sort equal the list definitions of the statement. ' + SYMX,
            'trusted: CrossHair/z3; list definitions in vp/props/C10.py; distinct restricted to ints 0..2 (the real code hashes items)', '4/C10'),
    'C11': ('solver-based: symbolic execution (CrossHair+z3) of Subject-driven pipelines, timed trace vs reference interpreter',
            'Every output is stamped with the source position at which it reaches the final subscriber; for all N<=4 (thorough 5) integers the timed trace equals the reference timed trace (multiset per source position) for every catalogue operator, keyed operators around reducing/streaming inner pipelines, tee_map and seeded compositions to depth 3. ' + SYMX,
            'trusted: CrossHair/z3, vp/refsem.py emission times; programs outside the enumerated/seeded set are outside the claim', '4/C11'),
}

PENDING = {}


def main():
    props = [json.loads(l) for l in open(os.path.join(ROOT, 'properties.jsonl'))]
    checks = []
    na = []
    for p in props:
        pid = p['id']
        if pid in CHECKS:
            tech, text, note, ref = CHECKS[pid]
            checks.append(dict(
                property_id=pid,
                quick_cmd='./check %s --tier quick' % pid,
                thorough_cmd='./check %s --tier thorough' % pid,
                evidence_file='evidence/%s.json' % pid,
                replay_cmd_template='./check --replay {path}',
                engine='symx' if 'z3x' not in tech else 'symx+z3x',
                level_claimed=dict(category='other', text=text, design_ref='DESIGN.md section ' + ref),
                level_note=note,
                technique=tech,
            ))
        else:
            na.append(dict(property_id=pid, reason=PENDING.get(pid, 'check not built yet in this round (planned: see DESIGN.md section 4/%s)' % pid)))
    m = dict(
        version=1,
        setup_cmd='./setup.sh',
        hooks=dict(guard='RXSCI_VERIF', enable='no source hooks: checks assemble pipelines, stores and taps themselves; ./check exports RXSCI_VERIF=1 (unused by rxsci)',
                   baseline_off_cmd='cd /repo && /venv/bin/python -m pytest -ra -q -p no:cacheprovider --timeout=900 --continue-on-collection-errors',
                   source_commits=[], add_only=True),
        engines=[
            dict(name='symx', path='vp/symx.py', serves_properties=sorted(CHECKS), kind_free_text='CrossHair 0.0.110 symbolic execution of the real Python code with z3 5.1, one obligation per forked worker, exhaustive path exploration within stated bounds, concrete replay of counterexamples'),
            dict(name='z3x', path='vp/z3x.py', serves_properties=[p for p in sorted(CHECKS) if 'z3x' in CHECKS[p][0]], kind_free_text='real closures / function source executed on z3 terms, explicit solver queries, cvc5 cross-check'),
        ],
        checks=checks,
        notes='All checks are bounded: CONFIRMED means for every value within the bound written in evidence; INCONCLUSIVE obligations (budget, unknown) are counted and named in evidence and are never reported as success or violation. '
              'Exit 0/1/2 = held / VIOLATION (reproduced concretely) / harness error. Genuine defects found are repaired by fix: commits in /repo and listed under fixed in known_findings.json.',
        not_applicable=na,
    )
    with open(os.path.join(ROOT, 'MANIFEST.json'), 'w') as f:
        json.dump(m, f, indent=1)
    print('MANIFEST.json: %d checks, %d not claimed' % (len(checks), len(na)))


if __name__ == '__main__':
    main()
