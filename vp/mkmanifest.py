"""Regenerates /verif/MANIFEST.json from the table below (python -m vp.mkmanifest)."""
import json
import os

ROOT = os.path.dirname(os.path.dirname(os.path.abspath(__file__)))

SYMX = ('bounded symbolic execution of the real rxsci code (CrossHair 0.0.110 per-path, z3 5.1): inputs are solver variables, the property is the harness postcondition, '
        'CONFIRMED only when every feasible path within the stated bound was explored; counterexamples are replayed concretely on the real code before being reported')

# property -> (technique, level text, level note, design ref)
CHECKS = {
    'C04': ('solver-based: symbolic execution (CrossHair+z3) of real group_by vs reference interpreter',
            'For every sequence of N<=4 (thorough 6) arbitrary integers and 7 key mappers (equal-not-identical keys), the real group_by output trace (values, order, emission position) equals the reference semantics; also nested in group_by/roll/split, with a completion-triggered consumer after it, after an aborted first subscription, and with distinct keys of equal hash. ' + SYMX,
            'trusted: CrossHair/z3, vp/refsem.py reference interpreter (transcribes the statement), RxPY synchronous delivery; bounds in evidence', '4/C04'),
    'C05': ('solver-based: symbolic execution (CrossHair+z3) of real roll vs reference interpreter, (w,s) grid',
            'For every (w,s) in 1..4 x 1..4 (thorough 1..6) and every stream of N<=7 (thorough 13) arbitrary integers the real roll emits exactly the sliding windows of the statement, in closing/opening order, checked through an injective linear digest of window contents; also under group_by, nested, with a consumer after roll and after an aborted first subscription; an inductive one-step form from the invariant state of an UNBOUNDED item counter (n = q*P + r, q symbolic) for every (w,s) in 1..6 (12) covers streams of any length (a failing step is only reported when the deviation is confirmed by running the real roll from an empty key for the n <= 2^18 items of the counterexample); long runs with windows up to 257 and rings of 17-33 slots. ' + SYMX,
            'trusted: CrossHair/z3, vp/refsem.py; window/stride outside the grid and longer streams are outside the claim', '4/C05'),
    'C06': ('solver-based: symbolic execution (CrossHair+z3) of real split vs reference interpreter',
            'For every sequence of N<=4 (thorough 6) arbitrary integers and predicates returning fresh tuples / run-time strings, real split segments = maximal runs by != ; empty key, nested and group_by contexts, completion-triggered consumers after split, a shared self-unequal (NaN) predicate value, retry history. ' + SYMX,
            'trusted: CrossHair/z3, vp/refsem.py', '4/C06'),
    'C07': ('solver-based: symbolic execution (CrossHair+z3) of real time_split with symbolic timestamps and timeouts',
            'Timestamps are symbolic non-decreasing integers, both timeouts symbolic in 0..8 (or None), closing flags symbolic: the item->window partition of the real time_split equals the reference for all of them, N<=4 (thorough 6), also under group_by. ' + SYMX,
            'trusted: CrossHair/z3, vp/refsem.py; integers stand for datetime/timedelta (ordered abelian group: the operator only uses >= and +)', '4/C07'),
    'C09': ('solver-based: symbolic execution (CrossHair+z3) of real scan vs left fold, plus one-step inductive form on scan_mux',
            'Whole runs (plain, mux root - each subscribed twice after an aborted first subscription -, 2 interleaved groups, successive roll lifetimes) of scan with 6 accumulators incl. a mutating list append, a tuple seed holding a mutated list and one that returns None, seed as value/factory, reduce/terminator on/off equal the left fold for all N<=4 (thorough 6) integers; one-step obligations from an arbitrary stored accumulator cover keys of any length; derived operators vs their fold. ' + SYMX,
            'trusted: CrossHair/z3; distogram replaced by a stub for dist.update (structure only)', '4/C09'),
    'C10': ('solver-based: symbolic execution (CrossHair+z3) of each sequence operator vs its list definition',
            'One obligation per operator x mode x length x parameter: N<=5 (thorough 7) items each an arbitrary int or None; first/last/take/distinct/distinct_until_changed/lag/pad_start/pad_end/start_with/batch/sort equal the list definitions of the statement; the stateful ones also under group_by with 2 solver-interleaved keys and on re-subscription after an aborted run, and inside split (solver-chosen boundaries) / a tumbling roll where every segment re-uses the key index (N<=4, thorough 5); distinct also over <=3 (4) items the solver picks from a palette of different values with equal hash. ' + SYMX,
            'trusted: CrossHair/z3; list definitions in vp/props/C10.py; distinct restricted to ints 0..2 (the real code hashes items) plus the equal-hash palette [-1, -2, 0, 2**61-1, 5]', '4/C10'),
    'C11': ('solver-based: symbolic execution (CrossHair+z3) of Subject-driven pipelines, timed trace vs reference interpreter',
            'Every output is stamped with the source position at which it reaches the final subscriber; for all N<=4 (thorough 5) integers the timed trace equals the reference timed trace (multiset per source position) for every catalogue operator, keyed operators around reducing/streaming inner pipelines, tee_map and seeded compositions to depth 3. ' + SYMX,
            'trusted: CrossHair/z3, vp/refsem.py emission times; programs outside the enumerated/seeded set are outside the claim', '4/C11'),
}


CHECKS.update({
    'C01': ('solver-based: symbolic execution (CrossHair+z3) of mux vs plain runs of the same operators; z3x term comparison for float-valued operators',
            'For every enumerated/seeded dual-mode pipeline (all single operators, seeded compositions to depth 3, tee_map with the 3 joins) and every N<=3 (thorough 4) items assigned by the solver to <=2 (3) groups, the per-group output of with_memory_store([group_by(k, P)]) equals rx.from_(group).pipe(*P). Also: keys taken from split / roll (re-used slots), the pipeline spread over two chained store stages, and float-valued operators run on z3 terms (reals, and IEEE binary64 for the accumulating ones; data-dependent branches forked): mux and plain output terms identical / provably equal for every assignment of N<=5 (7) items to <=3 groups. ' + SYMX,
            'trusted: CrossHair/z3, plain RxPY execution as the specification; preconditions of the statement assumed (no first/last/reduce on an empty sequence, bool predicates, no completion-triggered op after take/first inside tee_map); FloatSlots/SqrtUF stubs for the z3x family', '4/C01'),
    'C02': ('solver-based: symbolic execution (CrossHair+z3), per-lifetime differential (inner pipeline in a keyed parent vs standalone in a fresh store)',
            'For 35 stateful inner pipelines inside group_by / roll (tumbling, overlapping, gapped) / split / time_split / group_by+roll and all N<=4 (thorough 6) integers, the outputs of every key lifetime equal the same pipeline run standalone on that lifetime\'s items (nested split / group_by inner pipelines are completion-sensitive); plus hand-built mux event lists with solver-chosen sparse / descending / re-used key indices. ' + SYMX,
            'trusted: CrossHair/z3; the standalone run of the inner pipeline is the specification', '4/C02'),
    'C03': ('solver-based: symbolic execution (CrossHair+z3) with protocol monitors at every operator boundary',
            'Monitors before/after every operator, at head/tail of every inner pipeline and tee_map branch flag any create of a live key, event for a dead key, slot-index clash of live keys, completion with live keys, event after completion; no flag for all N<=4 (6) integers over the roll (w,s) grid, systematic nestings to depth 3 and seeded nestings, on a first and a second subscription of the same pipeline object, and with key mappers / predicates that raise. ' + SYMX,
            'trusted: CrossHair/z3; programs outside the enumerated/seeded set are outside the claim', '4/C03'),
    'C08': ('solver-based: symbolic execution (CrossHair+z3), tee_map vs join of branches run alone',
            'For 12 (thorough 15) branch sets of 2-4 branches x 3 joins and all N<=4 (5) integers: tee_map output = the join (as the statement defines merge / zip / combine_latest) of the timed traces of the branches run alone (incl. None items, early-terminating and tumbling-window last branches); on the root key, per lifetime under group_by/roll/split, nested tee_map, and plain observables. ' + SYMX,
            'trusted: CrossHair/z3; each branch run alone is its own specification; join definitions in vp/props/C08.py', '4/C08'),
    'C12': ('solver-based: z3 queries over terms produced by executing the real math closures (reals: induction + whole runs; IEEE FPSort: rounding bound); CrossHair for min/max',
            'Welford induction step / base / output map of the real variance closure proved for every k>=1 over the reals; whole runs of sum, mean, variance, stddev, formal.variance, formal.stddev (n<=4, thorough 5; plain and mux; streaming and reduce) equal the textbook definitions and last streaming = reduce; relative-error bound n*kappa*u of the real variance and formal.variance closures on IEEE terms at FPSort(5,8), n=2 (thorough: also binary16, cvc5 cross-check); per-group results on interleaved multiplexed keys bit-identical to the plain results over binary64 terms; data-dependent branches forked by the term executor. Counterexamples are replayed on the real code (Python floats / software floats of the reduced format).',
            'trusted: z3 (cvc5 cross-check in thorough); NOT decided: the error bound in binary64 and for n>=3 (out of reach of bit-blasting: stated in evidence/DESIGN); sqrt uninterpreted', '4/C12'),
    'C13': ('solver-based: symbolic execution (CrossHair+z3) with user functions raising on a symbolic condition',
            'map/starmap/filter/scan raise when v%3==0, so every subset of failing items is a path; with ignore / error.map / router / no handler x 4 tails under multiplex, with_memory_store and group_by (2 keys), N<=3 (thorough 5): failing items absent or replaced in place, other keys and later items unaffected, dead letters in order and completing with the stream, unhandled error = outputs before it then on_error (also with the failing operator before a group_by and with the only handler after the group_by). ' + SYMX,
            'trusted: CrossHair/z3; the same pipeline on the items without the failing ones is the specification of "as if absent"', '4/C13'),
    'C14': ('solver-based: symbolic execution (CrossHair+z3) of the real MemoryStore vs a dictionary model, one-step from arbitrary states + short histories',
            'One operation (add_key/set/get/del_key) on a solver-chosen index from an arbitrary representable state of K<=3 (4) slots (markers and values symbolic), histories of 3 (4) solver-chosen operations over sparse indices, for int/uint/float/bool/obj with and without default; mapper: one operation from an arbitrary map state. After every step every index reads what the model says, with the type and sign of the last value written (1 / True / 1.0, 0.0 / -0.0). ' + SYMX,
            'trusted: CrossHair/z3 (array models pinned by engine self-tests); contract: set/get/del_key only on live indices', '4/C14'),
    'C15': ('solver-based: symbolic execution (CrossHair+z3) of line / length-prefix framing with symbolic text, payload bytes and cut positions',
            'Line: symbolic text of L<=4 (6) characters, 2 (3) cuts: unframe = split on newline, trailing partial line delivered at completion; frame+rechunk+unframe of items. Length-prefix: <=2 (3) items of <=2 bytes, prefix 1/2/4/8 x little/big, all solver-chosen cut pairs and truncation points: items back in order, incomplete trailing frame never delivered; symbolic prefix bytes (any announced length); every run follows an aborted subscription of the same operator object. ' + SYMX,
            'trusted: CrossHair/z3; io.BytesIO replaced by TinyBytesIO (validated against the real class each run)', '4/C15'),
    'C16': ('solver-based: symbolic execution (CrossHair+z3) of the real z/zstd wrapper code over a validated contract stub of the codec',
            'compress: symbolic chunk contents and codec buffering points -> one well-formed stream (gzip / zstd container, payload in order, one end-of-stream marker) of the concatenation, however the codec buffers; decompress: symbolic payload, 2 solver-chosen cuts -> payload, completes; truncation at any solver-chosen point -> on_error, never on_completed; compressible data (a run token of the stub expands a few stream bytes to 1-8 MiB, zlib max_length / unconsumed_tail protocol modelled): the payload comes out complete whatever the cuts. ' + SYMX,
            'CLAIM IS CONDITIONAL: rxsci wrapper code is correct given a codec honouring vp/stubs/streamcodec.py (its clauses are checked concretely on the real zlib/zstandard each run, incl. standalone gzip/zstd readability); zlib/zstd themselves are outside', '4/C16'),
    'C17': ('solver-based: symbolic execution (CrossHair+z3) of the real codec.py over validated pure-Python incremental codec models',
            'Code points symbolic over the whole Unicode range minus surrogates, string-list shapes of <=2 (3) code points, first cut concrete per obligation and second solver-chosen: decode(rechunk(encode(items))) concatenates to the items, no decode error, BOM exactly once, second subscription as the first; utf-8/16/32, latin-1; the decode path of json.load_from_file. ' + SYMX,
            'CLAIM IS CONDITIONAL on codecs.getincremental* behaving as vp/stubs/codecs_model.py (validated against CPython on a boundary alphabet x all cuts each run)', '4/C17'),
    'C18': ('solver-based: CrossHair+z3 on csv dump/load with symbolic strings; z3 QF_BVFP query over parse_decimal\'s current source re-executed on terms',
            'Strings: every split of <=3 (4) symbolic characters over 1-3 fields mixed with bool/int fields, 5 separators, 2 escape chars: rows round-trip. Numbers: parse_decimal source on (sign, integer digits, fraction digits) terms vs the correctly rounded binary64 value and sign, |I|<1000 (10^6), 1..4 (6) fraction digits, as printed by str(), and texts of 16-17 significant digits (digits above 2^53; the exact quotient modelled with a (72+4k)-bit significand); branches on the sign explored path by path. parse_int on digit strings and its source on terms up to 19 digits. File form with two adjacent short reads at every position, also by name with an explicit encoding. ' + SYMX,
            'trusted: CrossHair/z3; float(text) and str(float) are C code, modelled by their contract (correct rounding / shortest repr); exponent forms only through the fall-back check', '4/C18'),
    'C19': ('solver-based: symbolic execution (CrossHair+z3) of the real json.py glue over validated contract stubs (serializer, codecs, compressor, file)',
            'Objects are symbolic texts (any character incl. raw newline, quote, backslash, non-ASCII, astral); dump/load and dump_to_file/load_from_file with compression None/gzip/zstd, two adjacent short reads at every byte position, file object and custom open_obj (also under compression), utf-8 and utf-16: items equal, in order, one per object, empty file loads nothing, file complete and closed when completion is signalled. ' + SYMX,
            'CLAIM IS CONDITIONAL on the stubs LineJSON, codec models, StreamCodec, ShortReadFile (each validated against the real library each run; a real 3000-object multi-chunk file round-trips through the real libraries as a sanity run)', '4/C19'),
    'C20': ('solver-based: symbolic execution (CrossHair+z3) of the real parquet.py dump/load code over a validated contract stub of pyarrow',
            'N<=8 (12) rows with symbolic values, dump batch size and load batch size solver-chosen in 1..N+1: the file holds exactly the source rows once each in order, writer (and file, when opened by path) closed when completion is signalled, a second subscription of the same dump pipeline writes the same file, load returns the rows for every load batch size; a float column over NaN / nulls / signed zeros / infinities / subnormals keeps every cell. ' + SYMX,
            'CLAIM IS CONDITIONAL on pyarrow behaving as vp/stubs/fakearrow.py for the calls rxsci makes (validated by running identical scenarios through the real pyarrow each run, incl. (2048,1024), (5000,999))', '4/C20'),
})

PENDING = {}


def main():
    props = [json.loads(l) for l in open(os.path.join(ROOT, 'properties.jsonl'))]
    checks = []
    na = []
    for p in props:
        pid = p['id']
        if pid in CHECKS:
            tech, text, note, ref = CHECKS[pid]
            checks.append(dict(
                property_id=pid,
                quick_cmd='./check %s --tier quick' % pid,
                thorough_cmd='./check %s --tier thorough' % pid,
                evidence_file='evidence/%s.json' % pid,
                replay_cmd_template='./check --replay {path}',
                engine='symx+z3x' if pid in ('C01', 'C12', 'C18') else 'symx',
                level_claimed=dict(category='other', text=text, design_ref='DESIGN.md section ' + ref),
                level_note=note,
                technique=tech,
            ))
        else:
            na.append(dict(property_id=pid, reason=PENDING.get(pid, 'check not built yet in this round (planned: see DESIGN.md section 4/%s)' % pid)))
    m = dict(
        version=1,
        setup_cmd='./setup.sh',
        hooks=dict(guard='RXSCI_VERIF', enable='no source hooks: checks assemble pipelines, stores and taps themselves; ./check exports RXSCI_VERIF=1 (unused by rxsci)',
                   baseline_off_cmd='cd /repo && /venv/bin/python -m pytest -ra -q -p no:cacheprovider --timeout=900 --continue-on-collection-errors',
                   source_commits=[], add_only=True),
        engines=[
            dict(name='symx', path='vp/symx.py', serves_properties=sorted(CHECKS), kind_free_text='CrossHair 0.0.110 symbolic execution of the real Python code with z3 5.1, one obligation per forked worker, exhaustive path exploration within stated bounds, concrete replay of counterexamples'),
            dict(name='z3x', path='vp/z3x.py', serves_properties=['C01', 'C12', 'C18'], kind_free_text='real closures / function source executed on z3 terms, explicit solver queries, cvc5 cross-check'),
        ],
        checks=checks,
        notes='Engine guards: lemma self-tests ride along with every check; every CONFIRMED obligation is additionally run concretely (untraced) on witness inputs; vacuity twins per family. All checks are bounded: CONFIRMED means for every value within the bound written in evidence; INCONCLUSIVE obligations (budget, unknown) are counted and named in evidence and are never reported as success or violation. '
              'Contract stubs model the documented API surface of the stubbed library; a request they do not model makes the obligation INCONCLUSIVE (never a violation), as does a stub that can no longer be installed or a one-step counterexample that does not show through the public API. Exit 0/1/2 = held / VIOLATION (reproduced concretely) / harness error. Genuine defects found are repaired by fix: commits in /repo and listed under fixed in known_findings.json.',
        not_applicable=na,
    )
    with open(os.path.join(ROOT, 'MANIFEST.json'), 'w') as f:
        json.dump(m, f, indent=1)
    print('MANIFEST.json: %d checks, %d not claimed' % (len(checks), len(na)))


if __name__ == '__main__':
    main()
