"""Concrete replay of a counterexample against the real code: plain interpreter,
no CrossHair, no tracing.  ``python -m vp.replay --json`` (payload on stdin) or
``python -m vp.replay <replay-file>``."""
import contextlib
import io
import json
import sys
import traceback


def run(spec, args, kwargs):
    from vp import engine, harness
    sys.setrecursionlimit(10000)
    h = engine.build(spec)
    harness.DETAIL.clear()
    harness.CONCRETE[0] = True
    del harness.UNMODELLED[:]
    out = _run(spec, args, kwargs, h)
    if harness.UNMODELLED and spec.get('kind') != 'direct':
        # whatever happened, it happened after the code under test used something a contract stub does not model
        return dict(reproduced=False, inconclusive='contract stub: %s not modelled' % ', '.join(sorted(set(harness.UNMODELLED))[:4]))
    return out


def _run(spec, args, kwargs, h):
    from vp import harness
    out = dict(reproduced=False)
    if spec.get('kind') == 'direct':
        # direct (z3x) obligations provide their own concrete replay
        r = h.replay(args)
        out.update(r)
        return out
    try:
        with contextlib.redirect_stdout(io.StringIO()):
            v = h(*args, **(kwargs or {}))
        if spec['params'].get('_twin') == 'reach':
            out['reproduced'] = v is True
            if v is not True:
                out['failed_concretely'] = True
                out['detail'] = _js(dict(harness.DETAIL)) or dict(returned=repr(v))
        elif v is not True:
            out['reproduced'] = True
            out['detail'] = _js(dict(harness.DETAIL)) or dict(returned=repr(v))
    except harness.Inconclusive as e:
        out['reproduced'] = False
        out['inconclusive'] = str(e)
    except Exception as e:  # the harness raised: that is a failure of the obligation too
        out['reproduced'] = spec['params'].get('_twin') != 'reach'
        out['failed_concretely'] = True
        out['exception'] = '%s: %s' % (type(e).__name__, e)
        out['detail'] = dict(trace=traceback.format_exc()[-1200:])
    return out


def _js(x):
    try:
        json.dumps(x)
        return x
    except Exception:
        if isinstance(x, dict):
            return {str(k): _js(v) for k, v in x.items()}
        if isinstance(x, (list, tuple)):
            return [_js(v) for v in x]
        return repr(x)


def main(argv):
    if argv and argv[0] == '--json':
        p = json.loads(sys.stdin.read())
        r = run(p['spec'], p['args'], p.get('kwargs'))
        print('REPLAY-RESULT ' + json.dumps(r, default=str))
        return 0
    with open(argv[0]) as f:
        rp = json.load(f)
    cex = rp.get('cex') or {}
    r = run(rp['spec'], cex.get('args', []), cex.get('kwargs'))
    print(json.dumps(dict(property=rp['property'], obligation=rp.get('obligation'), cex=cex, result=r), indent=1, default=str))
    if r.get('reproduced'):
        print('REPRODUCED property=%s' % rp['property'])
        return 1
    print('NOT REPRODUCED (property holds on this input on the current tree)')
    return 0


if __name__ == '__main__':
    sys.exit(main(sys.argv[1:]))
