"""Typed operator catalogue: a JSON-able descriptor builds both the real rxsci
pipeline and the reference-interpreter pipeline (vp.refsem).

descriptor := [name, *args]                       leaf
           |  ['group', km, [desc...]]            group_by(km, inner)
           |  ['roll', w, s, [desc...]]
           |  ['split', pred, [desc...]]
           |  ['tsplit', active, inactive, closing, include, [desc...]]   (items are ints = ticks)
           |  ['tee', join, [[desc...], [desc...], ...]]
All lambdas are fixed, total, bool-returning where a predicate is expected and
fork on at most one comparison per item.
"""
import rx
import rxsci as rs
from vp import refsem as R


def _inc(i): return i + 1
def _even(i): return i % 2 == 0
def _odd(i): return i % 2 == 1
def _pos(i): return i > 0
def _add(a, i): return a + i
def _maxn(a, i): return i if a is None or i > a else a
def _app(a, i):
    a.append(i)
    return a
def _lsum(l):
    """order-sensitive linear digest of a list of ints: as a linear form in the
    items it is injective, so equality for all values means the same sequence"""
    h = len(l)
    for x in l:
        h = h * 3 + x
    return h
def _psum(p): return p[0] + p[1]
def _none0(i): return 0 if i is None else i
def _fixt(i):
    """collapse tee tuples (with None holes) to an int"""
    if isinstance(i, tuple):
        s = 0
        for x in i:
            s = s * 7 + (0 if x is None else x)
        return s
    return i


def _m2(i): return 0 if i % 2 == 0 else 1
def _m3(i):
    r = i % 3
    return 0 if r == 0 else (1 if r == 1 else 2)


# key mappers / split predicates.  The residue is concretised by a comparison
# cascade so that the solver (not a hash of a symbolic value) picks the group.
KM = {
    'mod2': _m2,
    'tup2': lambda i: (_m2(i), 'g'),            # fresh tuple per call: equal, never identical
    'big2': lambda i: 10 ** 20 + _m2(i),        # large ints are not cached
    'flt2': lambda i: (0.25 + _m2(i)) * 2.0,    # floats computed at run time: equal, never identical
    'str2': lambda i: 'k' + ('0' if i % 2 == 0 else '1'),
    'neg2': lambda i: -1 - _m2(i),              # -1 and -2 have the same CPython hash: distinct keys, equal hashes
    'negt': lambda i: (-1 - _m2(i), 'g'),
    'mod3': _m3,
    'tup3': lambda i: (_m3(i),),
    'div3': lambda i: (i // 3,),
    'fst': lambda i: i[0],
}

# split predicates are only ever compared with != against the previous value: symbolic values fork once (equal / different) per item,
# which is far cheaper than a cascade; they still build a fresh, never identical object per call.
PRED = dict(KM)
PRED.update({
    'tup2': lambda i: (i % 2, 'g'),
    'tup3': lambda i: (i % 3,),
    'mod2': lambda i: i % 2,
    'mod3': lambda i: i % 3,
})

# name -> (real factory, ref factory, dual?)   int -> int unless noted
LEAVES = {
    'map_inc': (lambda: [rs.ops.map(_inc)], lambda: [R.Map(_inc)], True),
    'filter_even': (lambda: [rs.ops.filter(_even)], lambda: [R.Filter(_even)], True),
    'filter_odd': (lambda: [rs.ops.filter(_odd)], lambda: [R.Filter(_odd)], True),
    'filter_pos': (lambda: [rs.ops.filter(_pos)], lambda: [R.Filter(_pos)], True),
    'scan_add': (lambda: [rs.ops.scan(_add, seed=0)], lambda: [R.Scan(_add, 0)], True),
    'scan_add_r': (lambda: [rs.ops.scan(_add, seed=0, reduce=True)], lambda: [R.Scan(_add, 0, reduce=True)], True),
    'scan_max': (lambda: [rs.ops.scan(_maxn, seed=None)], lambda: [R.Scan(_maxn, None)], True),
    'scan_term': (lambda: [rs.ops.scan(_add, seed=0, terminator=lambda a: a * 100)], lambda: [R.Scan(_add, 0, terminator=lambda a: a * 100)], True),
    'count': (lambda: [rs.ops.count()], lambda: [R.Scan(lambda a, i: a + 1, 0)], True),
    'count_r': (lambda: [rs.ops.count(reduce=True)], lambda: [R.Scan(lambda a, i: a + 1, 0, reduce=True)], True),
    'min': (lambda: [rs.math.min()], lambda: [R.Scan(lambda a, i: i if a is None or i < a else a, None)], True),
    'max_r': (lambda: [rs.math.max(reduce=True), rs.ops.map(_none0)], lambda: [R.Scan(_maxn, None, reduce=True), R.Map(_none0)], True),   # None (empty key) -> 0 so that int -> int composes
    'first': (lambda: [rs.ops.first()], lambda: [R.First()], True),
    'last': (lambda: [rs.ops.last()], lambda: [R.Last()], True),
    'take0': (lambda: [rs.ops.take(0)], lambda: [R.Take(0)], True),
    'take1': (lambda: [rs.ops.take(1)], lambda: [R.Take(1)], True),
    'take2': (lambda: [rs.ops.take(2)], lambda: [R.Take(2)], True),
    'to_list_sum': (lambda: [rs.data.to_list(), rs.ops.map(_lsum)], lambda: [R.Scan(lambda a, i: a + [i], list, reduce=True), R.Map(_lsum)], True),
    'to_array_sum': (lambda: [rs.data.to_array('q'), rs.ops.map(lambda a: _lsum(list(a)))], lambda: [R.Scan(lambda a, i: a + [i], list, reduce=True), R.Map(_lsum)], True),
    'duc': (lambda: [rs.ops.distinct_until_changed()], lambda: [R.DucK()], True),
    'duc_k': (lambda: [rs.ops.distinct_until_changed(lambda i: i % 2)], lambda: [R.DucK(lambda i: i % 2)], True),
    'clip': (lambda: [rs.data.clip(0, 5)], lambda: [R.Map(lambda i: max(min(i, 5), 0))], True),
    'fill_none': (lambda: [rs.data.fill_none(0)], lambda: [R.Map(_none0)], True),
    'batch1_sum': (lambda: [rs.data.batch(1), rs.ops.map(_lsum)], lambda: [R.Batch(1), R.Map(_lsum)], True),
    'batch2_sum': (lambda: [rs.data.batch(2), rs.ops.map(_lsum)], lambda: [R.Batch(2), R.Map(_lsum)], True),
    'batch3_sum': (lambda: [rs.data.batch(3), rs.ops.map(_lsum)], lambda: [R.Batch(3), R.Map(_lsum)], True),
    'identity': (lambda: [rs.ops.identity()], lambda: [R.Map(lambda i: i)], True),
    'do_action': (lambda: [rs.ops.do_action(on_next=lambda i: None)], lambda: [R.Map(lambda i: i)], True),
    'assert_ok': (lambda: [rs.ops.assert_(lambda i: i == i)], lambda: [R.Map(lambda i: i)], True),
    'assert1_ok': (lambda: [rs.ops.assert_1(lambda a, b: a == a)], lambda: [R.Map(lambda i: i)], True),
    'progress': (lambda: [rs.ops.progress('p', 2, measure_throughput=False)], lambda: [R.Map(lambda i: i)], True),
    'flat': (lambda: [rs.ops.map(lambda i: [i, i + 1]), rs.ops.flat_map()], lambda: [R.Map(lambda i: [i, i + 1]), R.FlatMap()], True),
    'star': (lambda: [rs.ops.map(lambda i: (i, 1)), rs.ops.starmap(lambda a, b: a + b)], lambda: [R.Map(lambda i: i + 1)], True),
    # mux only
    'distinct': (lambda: [rs.ops.distinct()], lambda: [R.Distinct()], False),
    'lag1_sum': (lambda: [rs.data.lag(1), rs.ops.map(_psum)], lambda: [R.Lag(1), R.Map(_psum)], False),
    'lag2_sum': (lambda: [rs.data.lag(2), rs.ops.map(_psum)], lambda: [R.Lag(2), R.Map(_psum)], False),
    'pad_start': (lambda: [rs.data.pad_start(2, 7)], lambda: [R.PadStart(2, 7)], False),
    'pad_start_nv': (lambda: [rs.data.pad_start(1)], lambda: [R.PadStart(1)], False),
    'pad_end': (lambda: [rs.data.pad_end(2)], lambda: [R.PadEnd(2)], False),
    'pad_end_v': (lambda: [rs.data.pad_end(1, 9)], lambda: [R.PadEnd(1, 9)], False),
    'start_with': (lambda: [rs.ops.start_with((5, 6))], lambda: [R.StartWith((5, 6))], False),
}

DUAL = [k for k, v in LEAVES.items() if v[2]]
STATEFUL = ['scan_add', 'scan_add_r', 'scan_max', 'scan_term', 'count', 'count_r', 'min', 'max_r', 'first', 'last', 'take1', 'take2',
            'to_list_sum', 'duc', 'duc_k', 'batch2_sum', 'batch3_sum', 'assert1_ok', 'distinct', 'lag1_sum', 'lag2_sum',
            'pad_start', 'pad_start_nv', 'pad_end', 'pad_end_v', 'start_with']
COMPLETION = {'scan_add_r', 'scan_term', 'count_r', 'max_r', 'last', 'to_list_sum', 'to_array_sum', 'batch1_sum', 'batch2_sum', 'batch3_sum', 'pad_end', 'pad_end_v'}
EARLY = {'first', 'take0', 'take1', 'take2'}


def build(desc, tap=None, path='p'):
    """descriptor list -> (real ops list, ref ops list).  When ``tap`` is given,
    tap(label) operators are inserted at every boundary of the real pipeline:
    before and after every operator, at head and tail of every inner pipeline
    and of every tee_map branch."""
    real, ref = [], []
    if tap:
        real.append(tap(path + ':0'))
    for j, d in enumerate(desc):
        a, b = build1(d, tap, '%s.%d' % (path, j))
        for x, op in enumerate(a):
            real.append(op)
            if tap:
                real.append(tap('%s:%d.%d' % (path, j + 1, x)))
        ref += b
    return real, ref


def build1(d, tap=None, path='p'):
    if isinstance(d, str):
        d = [d]
    k = d[0]
    if k in LEAVES:
        f = LEAVES[k]
        return f[0](), f[1]()
    if k == 'group':
        a, b = build(d[2], tap, path + 'g')
        return [rs.ops.group_by(KM[d[1]], a)], [R.GroupBy(KM[d[1]], b)]
    if k == 'roll':
        a, b = build(d[3], tap, path + 'r')
        return [rs.data.roll(d[1], d[2], a)], [R.Roll(d[1], d[2], b)]
    if k == 'split':
        a, b = build(d[2], tap, path + 's')
        return [rs.data.split(PRED[d[1]], a)], [R.Split(PRED[d[1]], b)]
    if k == 'tsplit':
        _, act, inact, closing, include, inner = d
        a, b = build(inner, tap, path + 't')
        cl = (lambda i: i % 4 == 0) if closing else None
        return ([rs.data.time_split(lambda i: i, active_timeout=act, inactive_timeout=inact, closing_mapper=cl,
                                    include_closing_item=include, pipeline=a)],
                [R.TimeSplit(lambda i: i, act, inact, cl, include, b)])
    if k == 'tee':
        brs = [build(b, tap, '%sb%d' % (path, x)) for x, b in enumerate(d[2])]
        return ([rs.ops.tee_map(*[rx.pipe(*a) for a, _ in brs], join=d[1]), rs.ops.map(_fixt)],
                [R.Tee([b for _, b in brs], d[1]), R.Map(_fixt)])
    raise KeyError(k)


def is_dual(desc):
    for d in desc:
        if isinstance(d, str):
            d = [d]
        if d[0] in LEAVES:
            if not LEAVES[d[0]][2]:
                return False
        elif d[0] == 'tee':
            if not all(is_dual(b) for b in d[2]):
                return False
        else:
            return False
    return True


def leaves_of(desc):
    out = []
    for d in desc:
        if isinstance(d, str):
            d = [d]
        if d[0] in LEAVES:
            out.append(d[0])
        elif d[0] == 'tee':
            for b in d[2]:
                out += leaves_of(b)
        else:
            out += leaves_of(d[-1])
    return out


def show(desc):
    parts = []
    for d in desc:
        if isinstance(d, str):
            d = [d]
        if d[0] in LEAVES:
            parts.append(d[0])
        elif d[0] == 'tee':
            parts.append('tee:%s(%s)' % (d[1], ' | '.join(show(b) for b in d[2])))
        else:
            parts.append('%s%s(%s)' % (d[0], tuple(d[1:-1]), show(d[-1])))
    return ' > '.join(parts)


# ---------------------------------------------------------------- program generator

STATELESS = ['map_inc', 'filter_even', 'filter_pos', 'clip', 'identity', 'do_action', 'star', 'assert_ok']
INT_LEAVES = [k for k in LEAVES if k not in ('progress',)]
KEYED = [
    ('group', 'mod2'), ('group', 'tup2'), ('roll', 2, 2), ('roll', 2, 1), ('roll', 3, 2), ('roll', 2, 3), ('roll', 1, 1),
    ('split', 'tup3'), ('split', 'str2'), ('tsplit', 3, 2, False, True), ('tsplit', None, 2, True, True), ('tsplit', 3, None, True, False),
]


def overlapping(d):
    return d[0] == 'roll' and d[1] > d[2]


def gen(r, depth, mux_only_ok=True, length=None):
    """random type-correct (int -> int) pipeline descriptor.  After a keyed
    operator whose lifetimes overlap (roll with window > stride) only stateless
    operators follow: the delivery order between different lifetimes inside one
    source event is not specified, so order-sensitive continuations are not
    comparable with a reference."""
    leaves = INT_LEAVES if mux_only_ok else [k for k in INT_LEAVES if LEAVES[k][2]]
    n = length or r.choice([1, 1, 2, 2, 3])
    out = []
    stateless_only = False
    for _ in range(n):
        if stateless_only:
            out.append([r.choice(STATELESS)])
            continue
        c = r.random()
        if depth <= 0 or c < 0.5:
            out.append([r.choice(leaves)])
        elif c < 0.65:
            j = r.choice(['zip', 'merge', 'combine_latest'])
            nb = r.choice([2, 2, 3])
            out.append(['tee', j, [gen(r, depth - 1, mux_only_ok, length=r.choice([1, 1, 2])) for _ in range(nb)]])
        elif mux_only_ok:
            k = r.choice(KEYED)
            inner = gen(r, depth - 1, True, length=r.choice([1, 1, 2]))
            d = list(k) + [inner]
            out.append(d)
            if overlapping(d) or _has_overlap(inner):
                stateless_only = True
        else:
            out.append([r.choice(leaves)])
    return out


def _has_overlap(desc):
    for d in desc:
        if isinstance(d, str) or d[0] in LEAVES:
            continue
        if d[0] == 'tee':
            if any(_has_overlap(b) for b in d[2]):
                return True
        else:
            if overlapping(d) or _has_overlap(d[-1]):
                return True
    return False


def has_tsplit(desc):
    for d in desc:
        if isinstance(d, str) or d[0] in LEAVES:
            continue
        if d[0] == 'tsplit':
            return True
        if d[0] == 'tee':
            if any(has_tsplit(b) for b in d[2]):
                return True
        elif has_tsplit(d[-1]):
            return True
    return False


def depth_of(desc):
    m = 0
    for d in desc:
        if isinstance(d, str) or d[0] in LEAVES:
            m = max(m, 1)
        elif d[0] == 'tee':
            m = max(m, 1 + max(depth_of(b) for b in d[2]))
        else:
            m = max(m, 1 + depth_of(d[-1]))
    return m


BRANCH = {'filter_even': 2, 'filter_odd': 2, 'filter_pos': 2, 'scan_max': 2, 'min': 2, 'max_r': 2, 'duc': 2, 'duc_k': 2, 'clip': 3,
          'distinct': 2, 'fill_none': 1}
KBRANCH = {'neg2': 2, 'negt': 2, 'mod2': 2, 'tup2': 2, 'big2': 2, 'flt2': 2, 'str2': 2, 'mod3': 3, 'tup3': 3, 'div3': 7}


def branching(desc):
    """rough number of solver-feasible alternatives per source item (path-count rule of DESIGN 3.2)"""
    b = 1
    for d in desc:
        if isinstance(d, str):
            d = [d]
        k = d[0]
        if k in LEAVES:
            b *= BRANCH.get(k, 1)
            if k == 'flat':
                b *= 1
        elif k == 'tee':
            for br in d[2]:
                b *= branching(br)
        elif k == 'group':
            b *= KBRANCH.get(d[1], 2) * branching(d[-1])
        elif k == 'split':
            b *= (7 if d[1] == 'div3' else 2) * branching(d[-1])
        elif k == 'roll':
            inner = branching(d[-1])
            b *= inner ** (-(-d[1] // d[2]))
        elif k == 'tsplit':
            b *= 3 * branching(d[-1])
    return b
