#!/bin/bash
# Builds the overlay virtualenv used by every check: /venv's packages (rxsci's
# own dependencies, editable rxsci -> /repo) + crosshair-tool, z3-solver, cvc5
# from the offline wheelhouse. Idempotent; no network.
set -e
cd "$(dirname "$0")"
V=/verif/.venv
if [ ! -x "$V/bin/python" ] || ! "$V/bin/python" -c "import crosshair, z3, rxsci" 2>/dev/null; then
  rm -rf "$V"
  /venv/bin/python -m venv "$V"
  SP=$("$V/bin/python" -c "import sysconfig; print(sysconfig.get_paths()['purelib'])")
  echo "import site; site.addsitedir('/venv/lib/python3.12/site-packages')" > "$SP/_base_venv.pth"
  PIP_NO_INDEX=1 "$V/bin/pip" install -q --no-index --find-links /opt/veriftools/wheels crosshair-tool z3-solver cvc5 >/dev/null
fi
"$V/bin/python" -c "import crosshair, z3, rxsci; print('verif venv ok: crosshair', crosshair.__version__, 'z3', z3.get_version_string(), 'rxsci', rxsci.__file__)"
