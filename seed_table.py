#!/usr/bin/env python3
"""prints the markdown table of DESIGN.md section 11 from /verif/seeded/*/meta.json"""
import json
import os
import re

ROOT = os.path.dirname(os.path.abspath(__file__))
rows = []
for sid in sorted(os.listdir(os.path.join(ROOT, 'seeded'))):
    mp = os.path.join(ROOT, 'seeded', sid, 'meta.json')
    if not os.path.exists(mp):
        continue
    m = json.load(open(mp))
    r = m.get('result', {})
    ch = r.get('checks', {})
    caught = ', '.join('%s (%d)' % (c, v['violations']) for c, v in ch.items() if v['exit'] == 1) or '-'
    missed = ', '.join(c for c, v in ch.items() if v['exit'] != 1) or '-'
    what = m.get('summary') or ''
    rows.append('| %s | %s | %s | %s | %s | %s |' % (sid, ', '.join(os.path.basename(f) for f in m.get('files_changed', [])), what, 'yes' if r.get('confirmed') else 'NO', caught, missed))
print('| id | file | change / what it needs | confirmed (suite green, demo fails with / passes without) | caught by (violations) | run but not caught by |')
print('|---|---|---|---|---|---|')
print('\n'.join(rows))
