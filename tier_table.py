#!/usr/bin/env python3
"""markdown table for DESIGN section 7: quick numbers from evidence/<id>.json (written by the checks), thorough numbers from the sizing runs"""
import json
import os
HERE = os.path.dirname(os.path.abspath(__file__))
# one end-to-end thorough run per property (obligations, wall seconds): C05 C06 C09 C10 C15 C16 C18 C20 on the final tree with an idle machine, the others sizing runs
# made while other jobs were running on the same 16 cores
THOROUGH = {'C01': (2320, 9512), 'C02': (389, 3908), 'C03': (1446, 2188), 'C04': (108, 1024), 'C05': (988, 909), 'C06': (70, 234), 'C07': (82, 1779), 'C08': (426, 1183),
            'C09': (879, 423), 'C10': (491, 343), 'C11': (1130, 1198), 'C12': (139, 128), 'C13': (190, 2226), 'C14': (142, 3246), 'C15': (228, 172), 'C16': (56, 138),
            'C17': (447, 1133), 'C18': (242, 395), 'C19': (275, 1326), 'C20': (41, 105)}
print('| property | quick obligations | paths | solver queries | quick wall (s) | thorough obligations (sizing run) | thorough wall (s, sizing run) |')
print('|---|---|---|---|---|---|---|')
tq = tt = 0
for i in range(1, 21):
    pid = 'C%02d' % i
    try:
        e = json.load(open(os.path.join(HERE, 'evidence', pid + '.json')))
        c = e['coverage']
        row = (c.get('obligations'), c.get('paths'), c.get('solver_queries'), round(e.get('wall_s') or 0))
    except Exception:
        row = ('-', '-', '-', 0)
    tq += row[3] or 0
    tt += THOROUGH[pid][1]
    print('| %s | %s | %s | %s | %s | %s | %s |' % ((pid,) + row + THOROUGH[pid]))
print('| total | | | | %d | | %d |' % (tq, tt))
